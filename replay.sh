#!/bin/bash
# ./replay.sh <path>  -- re-run a replay produced by ./check.
#   *_replay_test.go : the solver's counterexample as an in-package Go test; it is injected into the
#                      repository with `go test -overlay` (nothing is written there) and FAILS when the
#                      counterexample reproduces on the real code.
#   *.txt            : a failed obligation without an executable counterexample: printed.
set -u
export GOFLAGS=-mod=mod GOPROXY=off GOSUMDB=off GOTOOLCHAIN=local
p=$(readlink -f "$1")
case "$p" in
  *_replay_test.go)
    ov="${p%_replay_test.go}.overlay.json"
    target=$(python3 -c "import json,sys; print(list(json.load(open('$ov'))['Replace'].keys())[0])")
    cd "$(dirname "$target")" && exec go test -tags verif -overlay "$ov" -vet=off -count=1 -timeout 60s -run '^TestReplay$' -v .
    ;;
  *) exec cat "$p";;
esac

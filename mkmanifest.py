#!/usr/bin/env python3
"""Regenerate /verif/MANIFEST.json from the table below (run by hand after contracts change;
the registered commands never call this)."""
import json, subprocess, re, collections

TECH = ("contract-based deductive verification: VCs generated from go/ssa of the real functions "
        "against //@ contracts (tag-guarded comment files in /repo), discharged by z3 4.8.12 / z3 5.1.0 / cvc5 1.0")

def under_contract():
    d = collections.defaultdict(list)
    for f, pk in [('zz_contracts_verif.go', 'ws'), ('wsutil/zz_contracts_verif.go', 'wsutil'),
                  ('wsflate/zz_contracts_verif.go', 'wsflate')]:
        cur = None
        for l in open('/repo/' + f):
            m = re.match(r'//@ (func|lemma|iface|funcval) (.*)', l)
            if m:
                cur = pk + '.' + m.group(2).split('(')[0].strip()
            m = re.match(r'//@\s+props (.*)', l)
            if m:
                for p in m.group(1).split():
                    d[p].append(cur)
    return d

CLAIMS = {
 "C01": ("proof",
  "Unbounded proof, for every header and every byte stream: HeaderSize equals the RFC 6455 size function; WriteHeader "
  "emits exactly one Write whose bytes equal the RFC 6455 section 5.2 layout (spec function written from the RFC, not "
  "from the code); ReadHeader and wsutil.Reader.readHeader decode that layout, consume exactly the header bytes and "
  "decide cut/MSB/ok by the decoder-side spec; WriteFrame/ReadFrame/NewFrame carry header and payload unchanged.",
  "Abstract io.Reader/io.Writer/io.ReadFull contracts (ghost byte streams) are assumed; a cut stream is any stream whose "
  "ghost end lies inside the header. 64-bit machine arithmetic is modelled exactly (bit-vectors)."),
 "C02": ("proof",
  "Unbounded proof that ws.Cipher computes payload[i] ^= mask[(offset+i) mod 4] for every length, alignment, key and "
  "non-negative offset (word loops with invariants, termination measures and frame conditions), that the frame helpers "
  "(Mask/Unmask, in place or copying) apply exactly that XOR and flip only the Masked/Mask header fields, and that "
  "wsutil.CipherReader/CipherWriter continue the key position across arbitrary chunkings (CipherWriter.Write also "
  "leaves the caller's slice untouched).",
  "The streaming reader/writer keep their position below 2^62 by precondition. The unsafe word loads in Cipher are modelled as little-endian loads of the byte heap (trusted)."),
 "C03": ("proof",
  "Proof that CheckHeader accepts exactly when none of the RFC rules it owns is broken and that each named error "
  "implies its rule; CheckCloseFrameData accepts/refuses exactly the status-code classes of the property; close bodies "
  "are at most 125 bytes and round-trip through the parser (lemma over the two contracts).",
  "utf8.ValidString is an uninterpreted predicate; the status-code range tables are read from their initialisers on "
  "every run (package-level variables are assumed not to be reassigned, checked syntactically)."),
 "C04": ("proof",
  "Proof of the per-frame step of the message reader for all byte streams: Reader.NextFrame/readHeader consume exactly "
  "one header, apply CheckHeader and the fragmentation rules, set up the payload window (limited, unmasking, UTF-8 "
  "checked) and keep the reader invariant; CipherReader.Read and UTF8Reader.Read transform/validate every chunking of "
  "the payload identically; Reader.Read's own decision logic (no-advance, end of frame, end of fragment, end of "
  "message, reset) and Reader.Discard (skips whole fragmented messages, leaves the reader idle) are proved with the "
  "reader chain behind r.frame as a black box.",
  "In Reader.Read the call r.frame.Read is an arbitrary io.Reader with an extended frame and three ASSUMED facts "
  "(listed in evidence notes; DESIGN 10.1), so byte-exact reassembly through the whole chain in one theorem is NOT "
  "claimed - it is the composition of the separately proved CipherReader/UTF8Reader/LimitedReader contracts. "
  "Of the ReadMessage/readData helpers only ReadMessage's collector of intermediate control frames is under contract "
  "(each collected message owns a fresh copy of exactly the frame's payload); an OnIntermediate handler is allowed as "
  "a black box that may consume the control frame; more than one extension and the OnContinuation callback are not covered. io.Copy into ioutil.Discard and ioutil.ReadAll "
  "are trusted contracts."),
 "C05": ("proof",
  "Proof that the first offending header is refused: readHeader+CheckHeader reject exactly the RFC-violating headers, "
  "and NextFrame rejects continuation-without-start and data-frame-inside-fragmented-message at that frame, leaving "
  "the error returned before any payload byte of the offending frame is handed out.",
  "Same exclusions as C04 (helpers, extensions, callbacks)."),
 "C06": ("proof",
  "Unbounded proof over wsutil.Writer (Write, WriteThrough, Grow, flushFragment, FlushFragment, Flush, constructors, "
  "reserve/headerSize arithmetic): every flush emits one header+payload with the right opcode/FIN/continuation flags, "
  "length and mask, every accepted byte appears exactly once in order in the ghost output stream, the buffer invariant "
  "holds after every operation, sticky errors stay sticky.",
  "flushFragment and WriteThrough are proved with zero or one send extension (its RSV bits are an uninterpreted "
  "function of the header it is given and must reach the wire); the public entry points above them assume no "
  "extension. pbytes pool Get/Put are trusted contracts; one postcondition (Write [fitdata]) is marked unproved in "
  "the contract file and reported as such in evidence; io.Writer is the abstract ghost stream."),
 "C07": ("proof",
  "Proof that the UTF-8 DFA step function (decode) equals the RFC 3629 acceptor written as a spec, that "
  "UTF8Reader.Read folds it over exactly the bytes it hands out for every chunking, reports ErrInvalidUTF8 as soon as "
  "the state is rejecting, and that Valid/Accepted/Reset report/restore the fold state.",
  "The end-of-message check in Reader.Read (incomplete sequence => ErrInvalidUTF8 and the reader is reset) is proved "
  "with the chain as a black box (see C04)."),
 "C08": ("proof",
  "Proof that ControlWriter never emits more than 125 payload bytes, always as one final control frame, counts what it "
  "accepted, and that the protocol-error close reply is a well-formed (masked on the client side) close frame with "
  "status 1002.",
  "HandleClose's decisions (empty close answered by an empty close and reported as 1005, one-byte and cut payloads are "
  "errors, never nil), HandlePing's empty-ping reply and Handle's dispatch are proved; the payload-carrying "
  "ping/pong/echo paths go through io.Copy / a ControlWriter over the same buffer and are abstracted (havoc). "
  "Assumes a transport never returns the library's own ClosedError."),
 "C09": ("proof",
  "PARTIAL. (1) Decision logic of both upgraders, with the request seen as a ghost sequence of lines (Upgrader) or as "
  "the parsed net/http request (HTTPUpgrader): a failed line read is never swallowed, success implies exactly one "
  "response and it is the 101 one, a failure before the response implies an error response whose status is the "
  "rejecting callback's code or 500, HTTPUpgrader accepts only GET-length methods, HTTP/1.x (x >= 1) and a non-empty "
  "Host (one defect found and fixed: HTTP/2 was accepted). (2) The pure text helpers, for all inputs: bsplit3, "
  "httpParseRequestLine/Version/HeaderLine, btrim, canonicalizeHeaderKey (= ASCII CanonicalMIMEHeaderKey), asciiToInt; "
  "btsSelectProtocol returns a copy; writeAccept writes exactly the accept value computed from the key (SHA-1/base64 "
  "uninterpreted).",
  "NOT proved: what the upgraders do with header *contents* (which header lines were seen, the key being 24 bytes, "
  "the accept value written, subprotocol/extension selection): the response writers, readLine, hijack, httpGetHeader, "
  "token scanning and every user callback are trusted/abstracted contracts (listed in evidence); map lookups yield "
  "arbitrary values. The iff-statement of C09 is therefore not a theorem here."),
 "C10": ("proof",
  "PARTIAL. (1) Decision logic of Dialer.Upgrade over a ghost sequence of response lines: a failed line read is "
  "never swallowed, the read buffer is handed back exactly when bytes are still buffered, a returned subprotocol is "
  "one of the requested strings (not a view of the read buffer). (2) For all inputs: the status line is accepted "
  "with status 101 only if its status token is literally '101' (two defects found and fixed), version shape, header "
  "line splitting/trimming/canonicalisation, hostport default ports, checkAcceptFromNonce accepts exactly the 28 "
  "bytes computed from the key (SHA-1/base64 uninterpreted).",
  "Of the request only its first line and the Host value are proved (GET, the URL's request-URI, HTTP/1.1, over the "
  "write history of the buffered writer); NOT proved: the other request headers, which response headers were seen "
  "and their values, extension matching, Dialer.Dial (network, TLS, timeouts). readLine, initNonce "
  "and the callbacks are trusted/abstracted; hostport assumes a host with at most one ']'."),
 "C12": ("proof",
  "Proof of the two glue components for all inputs: the tail-withholding proxy cbuf (bytes that reached the "
  "destination followed by the withheld bytes are exactly the bytes written; up to four withheld; zero padded) and the "
  "suffixed reader (the sequence delivered by Read/ReadByte is the source bytes followed by exactly "
  "00 00 ff ff 01 00 00 ff ff, for plain and ByteReader sources, any chunking); Writer.Flush/Close return nil only if "
  "the withheld bytes are 00 00 ff ff; frame helpers keep the header apart from RSV1/length and refuse non-final frames.",
  "The DEFLATE codec itself (compress/flate or a user Compressor/Decompressor) is arbitrary code under an 'assigns "
  "everything' contract: round-tripping through an independent inflater is NOT proved, only that the glue neither "
  "drops, adds nor reorders bytes around it."),
 "C13": ("proof",
  "Proof that MessageState.SetBits/UnsetBits and SetBit/UnsetBit set/clear/accept RSV1 exactly on the first data frame "
  "of a message and refuse it elsewhere, leaving every other header field unchanged; NextFrame and flushFragment pass "
  "RSV bits through unchanged when no extension is installed.",
  "The extension call sites (flushFragment, WriteThrough, NextFrame) are proved for at most one extension, modelled "
  "as an uninterpreted function of the header (every frame header must pass through it, its result must be used)."),
 "C14": ("proof",
  "Proof that the per-parameter callback of Parameters.Parse accepts exactly the legal parameter forms (window bits "
  "8..15 plain decimal, no duplicates, value-less flags), and that Extension.Negotiate accepts at most once and only "
  "with parameters legal for the offer and the server configuration.",
  "httphead (option scanner, IntFromASCII, Option encoding) is trusted/uninterpreted; Parameters.Parse as a whole is a "
  "trusted contract over the proved callback."),
 "C15": ("proof",
  "Zero-annotation safety obligations (index, slice, make, nil, division, shift, explicit panic) discharged for every "
  "function under contract that consumes peer input, for all inputs.",
  "Only functions listed in evidence; one open known finding (ReadFrame allocates Header.Length bytes unchecked). "
  "Termination is proved only where a loop carries a decreases clause."),
 "C16": ("proof",
  "Proof, with the transport as an arbitrary ghost stream that may end or fail at any byte, that ReadHeader/ReadFrame/"
  "readHeader/NextFrame return a non-nil error whenever the stream ends inside a header, a control payload or "
  "(ReadFrame) the payload, and that wsutil.Writer reports the first transport error and stays failed.",
  "Reader.Read's cut detection (a clean io.EOF implies the whole announced payload was there) is proved with the "
  "chain as a black box; Reader.Discard reports a cut payload (defect found and fixed); both handshake functions "
  "never swallow a failed line read."),
 "C17": ("proof",
  "Proof of freshness/aliasing clauses: MaskFrame/UnmaskFrame/MaskFrameWith return a payload that does not share "
  "memory with the argument; wsutil.Writer.Write/WriteThrough and CipherWriter.Write do not retain or modify the "
  "caller's slice; btsSelectProtocol returns a copy, never a view of the (pooled) header bytes.",
  "Pool reuse across objects (pbytes) is a trusted contract; ParseCloseFrameData's string copy is modelled by the "
  "string/slice view predicate."),
 "C18": ("proof",
  "Proof that every Reset/constructor under contract establishes exactly the state a fresh object has (wsutil.Writer, "
  "UTF8Reader, CipherReader/Writer, Reader.reset, wsflate Writer/Reader/cbuf/suffixedReader/Extension).",
  "GetWriter/PutWriter are proved over an assumed contract of the pool dependency (Get returns nothing or a *Writer "
  "stored by PutWriter)."),
}

NA = {
 "C11": "not decided: the decisions of Dialer.Upgrade/Upgrader.Upgrade are under contract (C09/C10) only over a ghost sequence of lines; that the line sequence is independent of transport chunking (readLine over bufio is a trusted contract), that both peers reach the same outcome (a relational statement over both functions and the header contents) and that the debug wrappers report exactly the bytes exchanged are not proved; nothing is claimed (DESIGN.md section 5)",
 "C19": "not applicable: a property over concurrent schedules of goroutines and shared pools; per-function contracts with a sequential heap model cannot express or decide it (DESIGN.md section 5)",
 "C20": "not applicable: cancellation/deadline behaviour of Dial depends on goroutines, timers and net.Conn deadlines (whole-history, concurrency); outside what per-call contracts decide (DESIGN.md section 5)",
}

def main():
    hooks = subprocess.run("git -C /repo log --format=%h --grep '^hooks:' --reverse", shell=True, capture_output=True, text=True).stdout.split()
    uc = under_contract()
    checks = []
    for pid in sorted(CLAIMS):
        cat, text, note = CLAIMS[pid]
        checks.append({
            "property_id": pid,
            "quick_cmd": f"./check {pid} quick",
            "thorough_cmd": f"./check {pid} thorough",
            "evidence_file": f"/verif/evidence/{pid}.json",
            "replay_cmd_template": "./replay.sh {path}",
            "engine": "govc",
            "level_claimed": {"category": cat, "text": text, "design_ref": f"DESIGN.md section 4 {pid}"},
            "level_note": note + " Functions under contract for this property: " + ", ".join(uc.get(pid, [])) + ".",
            "technique": TECH,
        })
    m = {
        "version": 1,
        "setup_cmd": "./check build",
        "hooks": {
            "guard": "verif",
            "enable": "contract files zz_contracts_verif.go (//go:build verif) are compiled only with -tags verif; the checks load /repo with that tag",
            "baseline_off_cmd": "cd /repo && go test -mod=mod -json -vet=off -count=1 -timeout 25m ./...",
            "source_commits": hooks,
            "add_only": True,
        },
        "engines": [{
            "name": "govc", "path": "/verif/govc", "serves_properties": sorted(CLAIMS),
            "kind_free_text": "verification-condition generator over go/ssa (NaiveForm) + contracts in //@ comments; obligations discharged by z3 4.8.12 / z3 5.1.0 / cvc5 1.0 raced",
        }],
        "checks": checks,
        "not_applicable": [{"property_id": p, "reason": NA[p]} for p in sorted(NA)],
        "notes": "Genuine defects found by failed obligations are listed in /verif/known-findings.json (fixed ones with their 'fix:' commit). Counterexample replay is by hand-written witness tests under /verif/witness (run with ./witness/run); VIOLATION lines produced for new failures end with no-failing-input-found.",
    }
    json.dump(m, open('/verif/MANIFEST.json', 'w'), indent=1)
    print("claimed", len(checks), "n/a", len(NA), "hooks", len(hooks))

main()

#!/usr/bin/env python3
"""Fill DESIGN.md section 10.3 from seeded/RESULTS.txt and the selftest logs (run by hand)."""
import re, json, os
rows=[]
for l in open('/verif/seeded/RESULTS.txt'):
    m=re.match(r'seed=(C\d+)/(\S+) (.*)',l.strip())
    if not m: continue
    pid,name,rest=m.groups()
    meta={}
    try: meta=json.load(open(f'/verif/seeded/{name}/meta.json'))
    except Exception: pass
    what=meta.get('summary','')
    what=re.sub(r'\s+',' ',what)
    short=what.split(':')[0][:90] if what else ''
    if 'PATCH-FAILED' in rest:
        res='patch no longer applies (superseded by a fix: commit)'; obl=''
    elif 'check=DETECTED' in rest:
        obl=re.search(r'\[(.*)\]',rest).group(1)
        obs=[o.split(' ')[0] for o in obl.split(';') if o]
        if obs==['none-generated']:
            res='not claimed (check exits 1: no obligations)'; obl=''
        elif all(o.endswith('/in-subset') for o in obs):
            res='reported: function left the verifiable subset'; obl=', '.join(obs[:2])
        else:
            res='**caught**'; obl=', '.join(f'`{o}`' for o in obs[:3])
    else:
        res='missed'; obl=''
    rows.append((pid,name,short,res,obl))
out=["| seeded change | where (from the sub-agent's summary) | result of `./check <id>` | failing obligations |","|---|---|---|---|"]
for pid,name,short,res,obl in rows:
    out.append(f"| {name} | {short} | {res} | {obl} |")
caught=sum(1 for r in rows if r[3]=='**caught**')
sub=sum(1 for r in rows if r[3].startswith('reported'))
missed=sum(1 for r in rows if r[3]=='missed')
nc=sum(1 for r in rows if r[3].startswith('not claimed'))
pf=sum(1 for r in rows if r[3].startswith('patch'))
summary=f"\nTotals over {len(rows)} seeded changes: {caught} caught by a named obligation, {sub} reported because the changed function left the subset, {missed} missed, {nc} for a property that is not claimed, {pf} no longer applicable.\n"
mut=[]
for f in (['/verif/work/selftest_all.log'] if os.path.exists('/verif/work/selftest_all.log') and 'selftest:' in open('/verif/work/selftest_all.log').read() else ['/verif/work/selftest.log','/verif/work/selftest2.log']):
    if os.path.exists(f):
        for l in open(f):
            m=re.match(r'(KILLED|WEAK-CONTRACT) (mutants/\S+?)[: ]',l)
            if m: mut.append((m.group(2),m.group(1), 'replayed' if ('solver=sat' in l and 'no-failing-input-found' not in l.split('solver=sat')[1][:30]) else ''))
killed=sum(1 for m in mut if m[1]=='KILLED'); weak=[m[0] for m in mut if m[1]!='KILLED']
rep=0
for f in ['/verif/work/selftest_all.log']:
    if os.path.exists(f):
        for l in open(f):
            if l.startswith('KILLED') and re.search(r'solver=sat(?! no-failing)',l): rep+=1
mtxt=f"\nHand-made mutants (`./selftest`): {killed} of {len(mut)} killed; for {rep} of them a counterexample was replayed on the real code by a generated test (the listing shows only the first three violations of each)"+(f"; surviving (weak contract): {', '.join(weak)}" if weak else "")+".\n"
s=open('/verif/DESIGN.md').read()
block="<!-- SEEDTABLE-BEGIN -->\n"+"\n".join(out)+"\n"+summary+mtxt+"<!-- SEEDTABLE-END -->"
if '@@SEEDTABLE@@' in s:
    s=s.replace('@@SEEDTABLE@@',block)
else:
    s=re.sub(r'<!-- SEEDTABLE-BEGIN -->.*?<!-- SEEDTABLE-END -->',lambda m: block,s,flags=re.S)
open('/verif/DESIGN.md','w').write(s)
print(summary,mtxt)

#!/usr/bin/env python3
"""Regenerate the verdict table of DESIGN.md section 0 (run by hand after ./check runs):
functions under contract are read from the contract files, obligation counts from the last
evidence files, the two prose columns from the table below."""
import json, re, collections, os

def under_contract():
    d = collections.defaultdict(list)
    for f, pk in [('zz_contracts_verif.go', 'ws'), ('wsutil/zz_contracts_verif.go', 'wsutil'),
                  ('wsflate/zz_contracts_verif.go', 'wsflate')]:
        cur = None
        for l in open('/repo/' + f):
            m = re.match(r'//@ (func|lemma) (.*)', l)
            if m:
                cur = pk + '.' + m.group(2).split('(')[0].strip()
            m = re.match(r'//@\s+props (.*)', l)
            if m and cur:
                for p in m.group(1).split():
                    d[p].append(cur)
    return d

PROSE = {
 "C01": ("proof", "holds (ReadFrame's open finding is printed as KNOWN-FINDING)", "`CompileFrame/MustCompileFrame` (bytes.Buffer)"),
 "C02": ("proof", "holds; one defect found and fixed (key index overflow for offsets next to MaxInt)", "the streaming reader/writer assume a position below 2^62"),
 "C03": ("proof", "holds", "—"),
 "C04": ("proof of the per-frame step and of the reader's decision logic", "holds; three defects found and fixed (cut control frame, UTF-8 state leak, Discard of a cut payload)", "`Reader.Read` sees the reader chain as a black box (§10.1): end-to-end byte equality through the chain is the composition of separately proved contracts, not one theorem; `readData` apart from its wiring, `ReadMessage` apart from its control-frame collector, the `OnContinuation` callback, more than one extension"),
 "C05": ("proof", "holds", "as C04"),
 "C06": ("proof", "holds; `Writer.Reset` defect found and fixed", "more than one send extension, `ReadFrom`; one clause `Write [fitdata]` carried as `unproved`"),
 "C07": ("proof", "holds; `UTF8Reader.Reset` and the `Reader.Read` state leak found and fixed", "chain as black box in `Reader.Read`"),
 "C08": ("proof", "holds; two defects found and fixed", "payload-carrying ping/pong/close-echo paths (`io.Copy` into a `ControlWriter` over the same buffer) are abstracted; in `readData` the handler is a black box assumed to drain the frame it is given (what is proved is that this connection's handler is wired in as `OnIntermediate` and called for stand-alone control frames, with header and UTF-8 checks on)"),
 "C09": ("proof, **partial**", "holds; one defect found and fixed (HTTP/2 accepted)", "header *contents* (which headers were seen, the accept value, selection results; the key length is covered: only a 24-byte value is ever copied into the nonce / handed to the response writer): response writers, `readLine`, `hijack`, `httpGetHeader`, token scanners and callbacks are trusted/abstracted — the iff-statement of C09 is **not** proved"),
 "C10": ("proof, **partial**", "holds; two defects found and fixed (digit hole, status not 3DIGIT)", "request headers other than the request line and Host, which response headers were seen, extension matching, `Dialer.Dial`"),
 "C11": ("**no**", "not decided", "whole property (§5)"),
 "C12": ("proof of the glue", "holds; `ReadByte` defect found and fixed", "the DEFLATE codec (arbitrary code under `assigns everything`) — interoperability with an independent inflater is an assumption about compress/flate, not a theorem"),
 "C13": ("proof", "holds", "more than one extension at the call sites in wsutil"),
 "C14": ("proof", "holds; three defects found and fixed", "`httphead` scanning, `Parameters.Parse/Option` (trusted contracts)"),
 "C15": ("proof (safety obligations)", "holds with **one open known finding** (`ReadFrame` allocates the announced length); `DebugDialer.Dial` panic found and fixed", "functions not under contract; termination only where `decreases` is given"),
 "C16": ("proof", "holds; two defects found and fixed", "byte-level cut points inside the handshake (lines are a ghost sequence); chain as black box in `Reader.Read`"),
 "C17": ("proof", "holds", "`strSelectProtocol`, `negotiateExtensions` (the callback path of the server's extension selection), `ReadFrom`; `httphead.Parameters.Copy` and `httphead.OptionSelector.Select` are assumed contracts"),
 "C18": ("proof", "holds; three defects found and fixed", "pool internals (assumed contract of `pool.Pool`)"),
 "C19": ("**not applicable**", "—", "concurrency (§5)"),
 "C20": ("**not applicable**", "—", "goroutines, timers, deadlines (§5)"),
}

def short(names):
    by = collections.OrderedDict()
    for n in names:
        pk, rest = n.split('.', 1)
        by.setdefault(pk, []).append(rest)
    parts = []
    for pk, fs in by.items():
        parts.append(pk + ": " + " ".join("`%s`" % f for f in fs))
    return "; ".join(parts)

def main():
    uc = under_contract()
    rows = ["| id  | claimed | functions under contract | obligations (last quick run) | result on the current tree | what is *not* covered |",
            "|-----|---------|--------------------------|------------------------------|-----------------------------|------------------------|"]
    for pid in sorted(PROSE):
        claimed, result, notcov = PROSE[pid]
        n = "—"
        ev = '/verif/evidence/%s.json' % pid
        if os.path.exists(ev) and not claimed.startswith('**no') and not claimed.startswith('**not'):
            d = json.load(open(ev))
            n = str(d['coverage'].get('obligations', '—'))
        fns = short(uc.get(pid, [])) if pid in uc else "—"
        rows.append("| %s | %s | %s | %s | %s | %s |" % (pid, claimed, fns, n, result, notcov))
    s = open('/verif/DESIGN.md').read()
    a = s.index("| id  | claimed |")
    b = s.index('"Holds" means')
    s = s[:a] + "\n".join(rows) + "\n\n" + s[b:]
    open('/verif/DESIGN.md', 'w').write(s)
    print("rows", len(rows) - 2)

main()

package main

// Sorts of Go types, symbolic state (cells + heaps), pointers, loads and stores.

import (
	"fmt"
	"go/types"
	"sort"
	"strings"

	"golang.org/x/tools/go/ssa"
)

type Val interface{}

type TupleVal []Val

type FuncVal struct {
	Fn       *ssa.Function
	Bindings []Val
}

type PtrKind int

const (
	KCell PtrKind = iota
	KObj
	KField
	KByte
	KElem
	KGlobal
	KNil
)

type PathElem struct {
	Field int   // >=0: struct field
	Index *Term // non-nil: array index (BV64)
}

type PtrVal struct {
	Kind   PtrKind
	Cell   *Cell
	Path   []PathElem
	Ref    *Term      // KObj, KField: object ref; KByte/KElem: region ref
	Typ    types.Type // type of the pointee
	Struct *types.Struct
	Fld    int
	Idx    *Term
	Global *ssa.Global
}

type Cell struct {
	id   int
	name string
	typ  types.Type
	key  ssa.Value // the Alloc / FreeVar this cell stands for (stable across runs)
}

type State struct {
	cond  *Term
	cells map[*Cell]*Term
	heaps map[string]*Term
	clock *Term
	dead  bool
}

func (s *State) clone() *State {
	n := &State{cond: s.cond, cells: make(map[*Cell]*Term, len(s.cells)), heaps: make(map[string]*Term, len(s.heaps)), clock: s.clock, dead: s.dead}
	for k, v := range s.cells {
		n.cells[k] = v
	}
	for k, v := range s.heaps {
		n.heaps[k] = v
	}
	return n
}

type UnsupportedError struct{ Msg string }

func (u *UnsupportedError) Error() string { return u.Msg }

func unsupported(f string, a ...interface{}) {
	panic(&UnsupportedError{fmt.Sprintf(f, a...)})
}

// ---------- sorts

func (e *Engine) sortOf(t types.Type) Sort {
	switch u := t.Underlying().(type) {
	case *types.Basic:
		switch {
		case u.Info()&types.IsBoolean != 0:
			return SBool
		case u.Info()&types.IsString != 0:
			return SStr
		case u.Info()&types.IsInteger != 0:
			return BVSort(intWidth(u))
		case u.Kind() == types.UnsafePointer:
			return SRef
		case u.Kind() == types.UntypedNil:
			return SRef
		}
		if u.Info()&types.IsFloat != 0 {
			return SOpq
		}
		unsupported("basic type %s", u)
	case *types.Pointer:
		return SRef
	case *types.Slice:
		return SSlice
	case *types.Interface:
		return SIface
	case *types.Signature:
		return SFn
	case *types.Map, *types.Chan:
		return SOpq
	case *types.Array:
		return ArraySort(SBV64, e.sortOf(u.Elem()))
	case *types.Struct:
		return e.structSort(t, u)
	case *types.Tuple:
		unsupported("tuple sort")
	}
	unsupported("type %s", t)
	return ""
}

func intWidth(b *types.Basic) int {
	switch b.Kind() {
	case types.Int8, types.Uint8:
		return 8
	case types.Int16, types.Uint16:
		return 16
	case types.Int32, types.Uint32:
		return 32
	case types.UntypedRune:
		return 32
	}
	return 64
}

func isSigned(t types.Type) bool {
	b, ok := t.Underlying().(*types.Basic)
	return ok && b.Info()&types.IsInteger != 0 && b.Info()&types.IsUnsigned == 0
}

func (e *Engine) structSort(t types.Type, st *types.Struct) Sort {
	name := ""
	if n, ok := t.(*types.Named); ok {
		name = "S_" + sanitize(shortPkgOf(n.Obj().Pkg())+"_"+n.Obj().Name())
	} else if a, ok := t.(*types.Alias); ok {
		return e.structSort(types.Unalias(a), st)
	} else {
		key := st.String()
		if n, ok := e.anonStructs[key]; ok {
			name = n
		} else {
			name = fmt.Sprintf("S_anon%d", len(e.anonStructs)+1)
			e.anonStructs[key] = name
		}
	}
	if _, ok := e.tb.dtDecl[name]; ok {
		return Sort(name)
	}
	if e.declaring[name] {
		unsupported("recursive struct %s", name)
	}
	e.declaring[name] = true
	d := &DTDecl{Name: name, Ctor: "mk" + name}
	for i := 0; i < st.NumFields(); i++ {
		f := st.Field(i)
		d.Fields = append(d.Fields, DTField{Name: fmt.Sprintf("%s.%s", name, fieldName(f, i)), Sort: e.sortOf(f.Type())})
	}
	delete(e.declaring, name)
	e.tb.DeclareDT(d)
	return Sort(name)
}

func fieldName(f *types.Var, i int) string {
	if f.Name() == "_" || f.Name() == "" {
		return fmt.Sprintf("f%d", i)
	}
	return f.Name()
}

func shortPkgOf(p *types.Package) string {
	if p == nil {
		return "builtin"
	}
	return shortPkg(p.Path())
}

func (e *Engine) zero(t types.Type) *Term {
	tb := e.tb
	switch u := t.Underlying().(type) {
	case *types.Basic:
		switch {
		case u.Info()&types.IsBoolean != 0:
			return tb.False()
		case u.Info()&types.IsString != 0:
			return tb.Ctor("Str", tb.RefNil(), tb.BV(0, 64), tb.BV(0, 64))
		case u.Info()&types.IsInteger != 0:
			return tb.BV(0, intWidth(u))
		case u.Kind() == types.UnsafePointer:
			return tb.RefNil()
		}
		return tb.Const("zero_opq", SOpq)
	case *types.Pointer:
		return tb.RefNil()
	case *types.Slice:
		return e.nilSlice()
	case *types.Interface:
		return e.nilIface()
	case *types.Signature:
		return tb.Const("fn_nil", SFn)
	case *types.Map, *types.Chan:
		return tb.Const("opq_nil", SOpq)
	case *types.Array:
		return tb.ConstArr(e.sortOf(t), e.zero(u.Elem()))
	case *types.Struct:
		s := e.sortOf(t)
		args := make([]*Term, u.NumFields())
		for i := range args {
			args[i] = e.zero(u.Field(i).Type())
		}
		return tb.Ctor(string(s), args...)
	}
	unsupported("zero of %s", t)
	return nil
}

func (e *Engine) nilSlice() *Term {
	return e.tb.Ctor("Slice", e.tb.RefNil(), e.tb.BV(0, 64), e.tb.BV(0, 64), e.tb.BV(0, 64))
}
func (e *Engine) nilIface() *Term { return e.tb.Ctor("Iface", e.tb.Int(0), e.tb.RefNil()) }

// slice accessors
func (e *Engine) sBase(s *Term) *Term { return e.tb.Acc(s, 0) }
func (e *Engine) sOff(s *Term) *Term  { return e.tb.Acc(s, 1) }
func (e *Engine) sLen(s *Term) *Term  { return e.tb.Acc(s, 2) }
func (e *Engine) sCap(s *Term) *Term  { return e.tb.Acc(s, 3) }

// ---------- heaps

func (e *Engine) heapName(st types.Type, i int) string {
	s := e.sortOf(st)
	return fmt.Sprintf("H:%s.%d", s, i)
}

func (e *Engine) heap(s *State, name string, sort Sort) *Term {
	if h, ok := s.heaps[name]; ok {
		return h
	}
	// initial heap constant (shared by all states of this VC run)
	h := e.tb.Const("h0_"+sanitize(name), sort)
	e.heapSorts[name] = sort
	s.heaps[name] = h
	return h
}

func (e *Engine) setHeap(s *State, name string, h *Term) {
	e.heapSorts[name] = h.Sort
	s.heaps[name] = h
}

func (e *Engine) bytesHeap(s *State) *Term {
	return e.heap(s, "M", ArraySort(SRef, SBytes))
}

func (e *Engine) elemHeapName(elem Sort) string { return "E:" + string(elem) }

func (e *Engine) elemHeap(s *State, elem Sort) *Term {
	if elem == SBV8 {
		return e.bytesHeap(s)
	}
	return e.heap(s, e.elemHeapName(elem), ArraySort(SRef, ArraySort(SBV64, elem)))
}

func (e *Engine) boxHeapName(sort Sort) string { return "B:" + string(sort) }

// region contents
func (e *Engine) region(s *State, elem Sort, ref *Term) *Term {
	if elem == SBV8 && ref.Op == "ctor" && ref.Name == "lit" && len(ref.Args) == 1 && ref.Args[0].Op == "intlit" && ref.Args[0].Val.Sign() > 0 {
		// the bytes of a literal (package-level `[]byte("...")`): immutable
		return e.tb.Select(e.tb.App("LIT", ArraySort(SRef, SBytes)), ref)
	}
	return e.tb.Select(e.elemHeap(s, elem), ref)
}

func (e *Engine) setRegion(s *State, elem Sort, ref *Term, arr *Term) {
	name := "M"
	if elem != SBV8 {
		name = e.elemHeapName(elem)
	}
	e.setHeap(s, name, e.tb.Store(e.elemHeap(s, elem), ref, arr))
}

// newRef allocates a fresh object reference.
func (e *Engine) newRef(s *State) *Term {
	r := e.tb.RefObj(s.clock)
	s.clock = e.tb.IntBin("+", s.clock, e.tb.Int(1))
	return r
}

// ---------- loads and stores

func isAggregate(t types.Type) bool {
	switch t.Underlying().(type) {
	case *types.Struct, *types.Array:
		return true
	}
	return false
}

func (e *Engine) elemSortOfArrayType(t types.Type) Sort {
	return e.sortOf(t.Underlying().(*types.Array).Elem())
}

// loadObj reads a whole value of type t stored at object ref.
func (e *Engine) loadObj(s *State, ref *Term, t types.Type) *Term {
	switch u := t.Underlying().(type) {
	case *types.Struct:
		args := make([]*Term, u.NumFields())
		for i := range args {
			ft := u.Field(i).Type()
			if isAggregate(ft) {
				args[i] = e.loadObj(s, e.tb.RefSub(ref, i), ft)
			} else {
				args[i] = e.tb.Select(e.heap(s, e.heapName(t, i), ArraySort(SRef, e.sortOf(ft))), ref)
			}
		}
		return e.tb.Ctor(string(e.sortOf(t)), args...)
	case *types.Array:
		es := e.sortOf(u.Elem())
		if isAggregate(u.Elem()) {
			if _, ok := u.Elem().Underlying().(*types.Struct); !ok {
				unsupported("nested array in heap")
			}
		}
		return e.region(s, es, ref)
	default:
		// boxed scalar
		return e.tb.Select(e.heap(s, e.boxHeapName(e.sortOf(t)), ArraySort(SRef, e.sortOf(t))), ref)
	}
}

func (e *Engine) storeObj(s *State, ref *Term, t types.Type, v *Term) {
	switch u := t.Underlying().(type) {
	case *types.Struct:
		for i := 0; i < u.NumFields(); i++ {
			ft := u.Field(i).Type()
			fv := e.tb.Acc(v, i)
			if isAggregate(ft) {
				e.storeObj(s, e.tb.RefSub(ref, i), ft, fv)
			} else {
				name := e.heapName(t, i)
				h := e.heap(s, name, ArraySort(SRef, e.sortOf(ft)))
				e.setHeap(s, name, e.tb.Store(h, ref, fv))
			}
		}
	case *types.Array:
		e.setRegion(s, e.sortOf(u.Elem()), ref, v)
	default:
		name := e.boxHeapName(e.sortOf(t))
		h := e.heap(s, name, ArraySort(SRef, e.sortOf(t)))
		e.setHeap(s, name, e.tb.Store(h, ref, v))
	}
}

func (e *Engine) load(s *State, p *PtrVal) *Term {
	tb := e.tb
	switch p.Kind {
	case KCell:
		v, ok := s.cells[p.Cell]
		if !ok {
			v = e.zero(p.Cell.typ)
			s.cells[p.Cell] = v
		}
		for _, pe := range p.Path {
			if pe.Index != nil {
				v = tb.Select(v, pe.Index)
			} else {
				v = tb.Acc(v, pe.Field)
			}
		}
		return v
	case KObj:
		return e.loadObj(s, p.Ref, p.Typ)
	case KField:
		ft := p.Struct.Field(p.Fld).Type()
		return tb.Select(e.heap(s, e.heapName(p.StructType(), p.Fld), ArraySort(SRef, e.sortOf(ft))), p.Ref)
	case KByte:
		return tb.Select(e.region(s, SBV8, p.Ref), p.Idx)
	case KElem:
		v := tb.Select(e.region(s, e.sortOf(p.ElemType()), p.Ref), p.Idx)
		for _, pe := range p.Path {
			if pe.Index != nil {
				v = tb.Select(v, pe.Index)
			} else {
				v = tb.Acc(v, pe.Field)
			}
		}
		return v
	case KGlobal:
		v := e.globalValue(s, p.Global)
		for _, pe := range p.Path {
			if pe.Index != nil {
				v = tb.Select(v, pe.Index)
			} else {
				v = tb.Acc(v, pe.Field)
			}
		}
		return v
	}
	unsupported("load through pointer kind %d", p.Kind)
	return nil
}

// elemT / structT are stored in Typ for KElem (element type) and KField (struct type)
func (p *PtrVal) ElemType() types.Type   { return p.Typ }
func (p *PtrVal) StructType() types.Type { return p.Typ }

func (e *Engine) updatePath(v *Term, path []PathElem, nv *Term) *Term {
	if len(path) == 0 {
		return nv
	}
	pe := path[0]
	if pe.Index != nil {
		inner := e.tb.Select(v, pe.Index)
		return e.tb.Store(v, pe.Index, e.updatePath(inner, path[1:], nv))
	}
	inner := e.tb.Acc(v, pe.Field)
	return e.tb.With(v, pe.Field, e.updatePath(inner, path[1:], nv))
}

func (e *Engine) store(s *State, p *PtrVal, v *Term) {
	tb := e.tb
	switch p.Kind {
	case KCell:
		cur, ok := s.cells[p.Cell]
		if !ok {
			cur = e.zero(p.Cell.typ)
		}
		s.cells[p.Cell] = e.updatePath(cur, p.Path, v)
	case KObj:
		e.storeObj(s, p.Ref, p.Typ, v)
	case KField:
		ft := p.Struct.Field(p.Fld).Type()
		name := e.heapName(p.StructType(), p.Fld)
		h := e.heap(s, name, ArraySort(SRef, e.sortOf(ft)))
		e.setHeap(s, name, tb.Store(h, p.Ref, v))
	case KByte:
		arr := e.region(s, SBV8, p.Ref)
		e.setRegion(s, SBV8, p.Ref, tb.Store(arr, p.Idx, v))
	case KElem:
		es := e.sortOf(p.ElemType())
		arr := e.region(s, es, p.Ref)
		cur := tb.Select(arr, p.Idx)
		e.setRegion(s, es, p.Ref, tb.Store(arr, p.Idx, e.updatePath(cur, p.Path, v)))
	case KGlobal:
		unsupported("store to package-level variable %s", p.Global.Name())
	default:
		unsupported("store through pointer kind %d", p.Kind)
	}
}

// ptrTerm converts a pointer value to a Ref term (only object pointers can be).
func (e *Engine) ptrTerm(p *PtrVal) *Term {
	switch p.Kind {
	case KObj:
		return p.Ref
	case KNil:
		return e.tb.RefNil()
	case KGlobal:
		if len(p.Path) == 0 {
			return e.globalRef(p.Global)
		}
	}
	unsupported("pointer of kind %d cannot be stored or passed as a value", p.Kind)
	return nil
}

// termPtr converts a Ref term to a pointer value of the given pointee type.
func (e *Engine) termPtr(ref *Term, pointee types.Type) *PtrVal {
	return &PtrVal{Kind: KObj, Ref: ref, Typ: pointee}
}

func (e *Engine) fieldAddr(p *PtrVal, st *types.Struct, structType types.Type, i int) *PtrVal {
	ft := st.Field(i).Type()
	switch p.Kind {
	case KCell:
		return &PtrVal{Kind: KCell, Cell: p.Cell, Path: append(append([]PathElem{}, p.Path...), PathElem{Field: i}), Typ: ft}
	case KGlobal:
		return &PtrVal{Kind: KGlobal, Global: p.Global, Path: append(append([]PathElem{}, p.Path...), PathElem{Field: i}), Typ: ft}
	case KElem:
		return &PtrVal{Kind: KElem, Ref: p.Ref, Idx: p.Idx, Typ: p.Typ, Path: append(append([]PathElem{}, p.Path...), PathElem{Field: i})}
	case KObj:
		if isAggregate(ft) {
			return &PtrVal{Kind: KObj, Ref: e.tb.RefSub(p.Ref, i), Typ: ft}
		}
		return &PtrVal{Kind: KField, Ref: p.Ref, Typ: structType, Struct: st, Fld: i}
	}
	unsupported("FieldAddr on pointer kind %d", p.Kind)
	return nil
}

// globals

func (e *Engine) globalRef(g *ssa.Global) *Term {
	k := e.globalID(g)
	return e.tb.mk("ctor", SRef, "lit", nil, e.tb.Int(int64(-1000-k)))
}

func (e *Engine) globalID(g *ssa.Global) int {
	key := g.Pkg.Pkg.Path() + "." + g.Name()
	if id, ok := e.globalIDs[key]; ok {
		return id
	}
	id := len(e.globalIDs) + 1
	e.globalIDs[key] = id
	return id
}

func globalKey(g *ssa.Global) string { return g.Pkg.Pkg.Path() + "." + g.Name() }

// globalValue: package-level variables are treated as immutable symbolic constants whose
// contents are taken from their initialisers where those are simple literals.
func (e *Engine) globalValue(s *State, g *ssa.Global) *Term {
	key := globalKey(g)
	t := g.Type().(*types.Pointer).Elem()
	if lit, ok := e.globalStringLit(g); ok && !e.globalAssigned(g) {
		return e.strLit(lit)
	}
	if lit, ok := e.globalBytesLit(g); ok && !e.globalAssigned(g) {
		// var x = []byte("literal"): a slice over literal memory (assumed never written through)
		str := e.strLit(lit)
		n := e.tb.BV(int64(len(lit)), 64)
		return e.tb.Ctor("Slice", e.tb.Acc(str, 0), e.tb.BV(0, 64), n, n)
	}
	if spec, idx := e.findGlobalSpec(g); spec != nil && len(spec.Values) <= idx && len(spec.Values) == 0 && !e.globalAssigned(g) {
		// declared without initialiser: the zero value (package-level variables are assumed immutable)
		switch t.Underlying().(type) {
		case *types.Array, *types.Basic, *types.Struct:
			return e.zero(t)
		}
	}
	c := e.tb.Const("G_"+sanitize(shortPkgOf(g.Pkg.Pkg)+"_"+g.Name()), e.sortOf(t))
	if !e.globalsUsed[key] {
		e.globalsUsed[key] = true
		e.globalOrder = append(e.globalOrder, g)
		e.addGlobalFacts(g, c, t)
	}
	return c
}

func sortedKeys(m map[string]*Term) []string {
	var ks []string
	for k := range m {
		ks = append(ks, k)
	}
	sort.Strings(ks)
	return ks
}

func typeKey(t types.Type) string {
	return strings.ReplaceAll(types.TypeString(t, nil), " ", "")
}

package main

// Integer variant of a query: bit-vectors become mathematical integers in [0, 2^w) with explicit
// wrap-around (mod 2^w) on +, -, *, and exact translations of comparisons, extensions and shifts /
// masks by constants; every other bit-level operator becomes an uninterpreted function of its
// arguments. Replacing an interpreted operator by an uninterpreted one only weakens the
// assumptions, so an "unsat" answer on this variant is a proof of the original obligation; a "sat"
// answer means nothing. The variant lets the solvers' linear-arithmetic engines decide the index /
// length reasoning that bit-blasting handles badly.

import (
	"os"
	"fmt"
	"math/big"
	"sort"
	"strings"
)

type liaPrinter struct {
	tb     *TB
	memo   map[*Term]string
	defs   []string
	consts map[string]string // name -> sort
	ufs    map[string]string
	ranges []string
	ok     bool
	n      int
	quant  bool // keep quantifiers (bound variables as integers)
}

// isWide: bit-vector sorts that are translated to Int (64 bits and more); narrower ones stay bit-vectors.
func isWide(s Sort) bool { return s.Width() >= 64 }

func liaSort(s Sort) string {
	if isWide(s) {
		return "Int"
	}
	if s.Width() > 0 {
		return string(s)
	}
	if idx, elem, ok := s.ArrayParts(); ok {
		return "(Array " + liaSort(idx) + " " + liaSort(elem) + ")"
	}
	switch s {
	case SBool, SInt, SRef, SFn, SOpq:
		return string(s)
	}
	return string(s) + "_I" // datatype with integer fields
}

func pow2(w int) string { return new(big.Int).Lsh(big.NewInt(1), uint(w)).String() }

func (p *liaPrinter) name(t *Term, sort string, body string) string {
	if len(body) < 60 || (t != nil && t.open) {
		return body // terms with bound variables cannot be hoisted into top-level definitions
	}
	p.n++
	n := fmt.Sprintf("i%d", p.n)
	p.defs = append(p.defs, fmt.Sprintf("(define-fun %s () %s %s)", n, sort, body))
	return n
}

func (p *liaPrinter) uf(op string, t *Term, args []string) string {
	w := t.Sort.Width()
	var ss []string
	for _, a := range t.Args {
		ss = append(ss, liaSort(a.Sort))
	}
	fn := fmt.Sprintf("uf_%s_%d", sanitize(op), w)
	for _, a := range t.Args {
		fn += fmt.Sprintf("_%d", a.Sort.Width())
	}
	p.ufs[fn] = "(" + strings.Join(ss, " ") + ") " + liaSort(t.Sort)
	r := "(" + fn + " " + strings.Join(args, " ") + ")"
	if isWide(t.Sort) {
		r = p.name(t, "Int", r)
		p.addRange(t, r, w)
	}
	return r
}

// native prints a narrow bit-vector operation as itself.
func (p *liaPrinter) native(t *Term, args []string) string {
	switch t.Op {
	case "zero_extend", "sign_extend":
		return p.name(t, liaSort(t.Sort), fmt.Sprintf("((_ %s %s) %s)", t.Op, t.Name, args[0]))
	case "extract":
		return p.name(t, liaSort(t.Sort), fmt.Sprintf("((_ extract %s) %s)", t.Name, args[0]))
	}
	return p.name(t, liaSort(t.Sort), "("+t.Op+" "+strings.Join(args, " ")+")")
}

// signed value of an unsigned representation
func sgn(x string, w int) string {
	return fmt.Sprintf("(ite (>= %s %s) (- %s %s) %s)", x, pow2(w-1), x, pow2(w), x)
}

func (p *liaPrinter) tr(t *Term) string {
	if s, ok := p.memo[t]; ok {
		return s
	}
	s := p.tr1(t)
	p.memo[t] = s
	return s
}

func (p *liaPrinter) tr1(t *Term) string {
	w := t.Sort.Width()
	args := func() []string {
		var out []string
		for _, a := range t.Args {
			out = append(out, p.tr(a))
		}
		return out
	}
	// narrow bit-vector results whose operands are narrow too: keep the operation as it is
	if w > 0 && !isWide(t.Sort) {
		allNarrow := true
		for _, a := range t.Args {
			if isWide(a.Sort) {
				allNarrow = false
			}
		}
		switch t.Op {
		case "bvlit":
			return bvLitStr(t.Val, w)
		case "bvadd", "bvsub", "bvmul", "bvneg", "bvand", "bvor", "bvxor", "bvnot", "bvshl", "bvlshr", "bvashr", "bvudiv", "bvurem", "bvsdiv", "bvsrem", "concat", "zero_extend", "sign_extend":
			if allNarrow {
				return p.native(t, args())
			}
		case "extract":
			if allNarrow {
				return p.native(t, args())
			}
			// extract from a wide value
			var hi, lo int
			fmt.Sscanf(t.Name, "%d %d", &hi, &lo)
			x := p.tr(t.Args[0])
			if lo > 0 {
				x = fmt.Sprintf("(div %s %s)", x, pow2(lo))
			}
			return p.name(t, liaSort(t.Sort), fmt.Sprintf("((_ int2bv %d) %s)", hi-lo+1, x))
		}
	}
	if t.Sort == SBool && (t.Op == "bvult" || t.Op == "bvslt") && !isWide(t.Args[0].Sort) {
		a := args()
		return p.name(t, "Bool", fmt.Sprintf("(%s %s %s)", t.Op, a[0], a[1]))
	}
	switch t.Op {
	case "true", "false":
		return t.Op
	case "bvlit":
		return t.Val.String()
	case "intlit":
		if t.Val.Sign() < 0 {
			return "(- " + new(big.Int).Neg(t.Val).String() + ")"
		}
		return t.Val.String()
	case "const":
		n := symName(t.Name)
		p.consts[n] = liaSort(t.Sort)
		if isWide(t.Sort) {
			p.addRange(t, n, w)
		}
		return n
	case "var":
		if !p.quant {
			p.ok = false
		}
		return symName(t.Name)
	case "forall":
		if !p.quant {
			p.ok = false
			return "true"
		}
		// bound bit-vector variables become integers restricted to the bit-vector's range
		var decl, guards []string
		for _, b := range t.Bnd {
			n := symName(b.Name)
			decl = append(decl, "("+n+" "+liaSort(b.Sort)+")")
			if isWide(b.Sort) {
				guards = append(guards, fmt.Sprintf("(<= 0 %s)", n), fmt.Sprintf("(< %s %s)", n, pow2(b.Sort.Width())))
			}
		}
		body := p.tr(t.Args[0])
		if len(guards) > 0 {
			body = "(=> (and " + strings.Join(guards, " ") + ") " + body + ")"
		}
		pats := ""
		for _, pt := range t.Pat {
			ps := p.tr(pt)
			if !strings.Contains(ps, "ite ") && !strings.Contains(ps, "(mod ") && !strings.Contains(ps, "(div ") {
				pats += " :pattern (" + ps + ")"
			}
		}
		if pats != "" {
			body = "(! " + body + pats + ")"
		}
		return "(forall (" + strings.Join(decl, " ") + ") " + body + ")"
	case "not", "and", "or", "=>", "distinct":
		return p.name(t, "Bool", "("+t.Op+" "+strings.Join(args(), " ")+")")
	case "=":
		return p.name(t, "Bool", "(= "+strings.Join(args(), " ")+")")
	case "ite":
		return p.name(t, liaSort(t.Sort), "(ite "+strings.Join(args(), " ")+")")
	case "+", "-", "<", "<=", ">", ">=":
		return p.name(t, liaSort(t.Sort), "("+t.Op+" "+strings.Join(args(), " ")+")")
	case "bvadd", "bvsub", "bvmul":
		a := args()
		op := map[string]string{"bvadd": "+", "bvsub": "-", "bvmul": "*"}[t.Op]
		if t.Op == "bvmul" && t.Args[0].Op != "bvlit" && t.Args[1].Op != "bvlit" {
			return p.uf(t.Op, t, a)
		}
		if os.Getenv("GOVC_LIA_ITE") != "" && len(a) == 2 && t.Op != "bvmul" {
			// both operands are in [0, 2^w): one conditional correction replaces the mod
			s := p.name(t, "Int", fmt.Sprintf("(%s %s %s)", op, a[0], a[1]))
			if t.Op == "bvadd" {
				return fmt.Sprintf("(ite (>= %s %s) (- %s %s) %s)", s, pow2(w), s, pow2(w), s)
			}
			return fmt.Sprintf("(ite (< %s 0) (+ %s %s) %s)", s, s, pow2(w), s)
		}
		return p.name(t, "Int", fmt.Sprintf("(mod (%s %s) %s)", op, strings.Join(a, " "), pow2(w)))
	case "bvneg":
		return p.name(t, "Int", fmt.Sprintf("(mod (- %s) %s)", p.tr(t.Args[0]), pow2(w)))
	case "bvult":
		a := args()
		return p.name(t, "Bool", fmt.Sprintf("(< %s %s)", a[0], a[1]))
	case "bvslt":
		a := args()
		ww := t.Args[0].Sort.Width()
		return p.name(t, "Bool", fmt.Sprintf("(< %s %s)", sgn(a[0], ww), sgn(a[1], ww)))
	case "zero_extend":
		if !isWide(t.Args[0].Sort) {
			return p.name(t, "Int", "(bv2nat "+p.tr(t.Args[0])+")")
		}
		return p.tr(t.Args[0])
	case "sign_extend":
		iw := t.Args[0].Sort.Width()
		x := p.tr(t.Args[0])
		if !isWide(t.Args[0].Sort) {
			x = p.name(t.Args[0], "Int", "(bv2nat "+x+")")
		}
		return p.name(t, "Int", fmt.Sprintf("(ite (>= %s %s) (+ %s %s) %s)", x, pow2(iw-1), x, new(big.Int).Sub(new(big.Int).Lsh(big.NewInt(1), uint(w)), new(big.Int).Lsh(big.NewInt(1), uint(iw))).String(), x))
	case "extract":
		var hi, lo int
		fmt.Sscanf(t.Name, "%d %d", &hi, &lo)
		x := p.tr(t.Args[0])
		if lo == 0 {
			return p.name(t, "Int", fmt.Sprintf("(mod %s %s)", x, pow2(hi+1)))
		}
		return p.name(t, "Int", fmt.Sprintf("(mod (div %s %s) %s)", x, pow2(lo), pow2(hi-lo+1)))
	case "concat":
		a := args()
		for i := range a {
			if !isWide(t.Args[i].Sort) {
				a[i] = "(bv2nat " + a[i] + ")"
			}
		}
		return p.name(t, "Int", fmt.Sprintf("(+ (* %s %s) %s)", a[0], pow2(t.Args[1].Sort.Width()), a[1]))
	case "bvand":
		// x & (2^k - 1) is x mod 2^k
		for i := 0; i < 2; i++ {
			m := t.Args[i]
			if m.Op == "bvlit" {
				mp := new(big.Int).Add(m.Val, big.NewInt(1))
				if mp.Sign() > 0 && new(big.Int).And(mp, m.Val).Sign() == 0 {
					return p.name(t, "Int", fmt.Sprintf("(mod %s %s)", p.tr(t.Args[1-i]), mp.String()))
				}
			}
		}
		return p.uf(t.Op, t, args())
	case "bvshl":
		if t.Args[1].Op == "bvlit" && t.Args[1].Val.IsInt64() && t.Args[1].Val.Int64() < int64(w) {
			return p.name(t, "Int", fmt.Sprintf("(mod (* %s %s) %s)", p.tr(t.Args[0]), pow2(int(t.Args[1].Val.Int64())), pow2(w)))
		}
		return p.uf(t.Op, t, args())
	case "bvlshr":
		if t.Args[1].Op == "bvlit" && t.Args[1].Val.IsInt64() && t.Args[1].Val.Int64() < int64(w) {
			return p.name(t, "Int", fmt.Sprintf("(div %s %s)", p.tr(t.Args[0]), pow2(int(t.Args[1].Val.Int64()))))
		}
		return p.uf(t.Op, t, args())
	case "bvor", "bvxor", "bvnot", "bvashr", "bvudiv", "bvurem", "bvsdiv", "bvsrem":
		return p.uf(t.Op, t, args())
	case "select":
		a := args()
		r := p.name(t, liaSort(t.Sort), "(select "+a[0]+" "+a[1]+")")
		if isWide(t.Sort) {
			p.addRange(t, r, w)
		}
		return r
	case "store":
		a := args()
		return p.name(t, liaSort(t.Sort), "(store "+strings.Join(a, " ")+")")
	case "constarr":
		return fmt.Sprintf("((as const %s) %s)", liaSort(t.Sort), p.tr(t.Args[0]))
	case "ctor":
		if t.Sort == SRef {
			if len(t.Args) == 0 {
				return t.Name
			}
			return "(" + t.Name + " " + strings.Join(args(), " ") + ")"
		}
		return p.name(t, liaSort(t.Sort), "("+t.Name+"_I "+strings.Join(args(), " ")+")")
	case "acc":
		r := ""
		if t.Args[0].Sort == SRef {
			r = "(" + t.Name + " " + p.tr(t.Args[0]) + ")"
		} else {
			r = "(" + t.Name + "_I " + p.tr(t.Args[0]) + ")"
		}
		if isWide(t.Sort) {
			r = p.name(t, "Int", r)
			p.addRange(t, r, w)
		}
		return r
	case "app":
		if t.Name == "rootid" {
			return "(rootid " + p.tr(t.Args[0]) + ")"
		}
		if len(t.Args) == 0 {
			n := symName(t.Name)
			p.ufs[n+"_I"] = "() " + liaSort(t.Sort)
			return n + "_I"
		}
		var ss []string
		for _, a := range t.Args {
			ss = append(ss, liaSort(a.Sort))
		}
		fn := symName(t.Name + "_I")
		p.ufs[fn] = "(" + strings.Join(ss, " ") + ") " + liaSort(t.Sort)
		r := "(" + fn + " " + strings.Join(args(), " ") + ")"
		if isWide(t.Sort) {
			r = p.name(t, "Int", r)
			p.addRange(t, r, w)
		}
		return r
	case "(_ is lit)":
		return "((_ is lit) " + p.tr(t.Args[0]) + ")"
	}
	p.ok = false
	return "true"
}

// LIAScript renders the (quantifier-free) assertions as an integer-arithmetic script.
func (tb *TB) LIAScript(asserts []*Term) (string, bool) {
	return tb.liaScript(asserts, false)
}

func (tb *TB) liaScript(asserts []*Term, quant bool) (string, bool) {
	p := &liaPrinter{tb: tb, memo: map[*Term]string{}, consts: map[string]string{}, ufs: map[string]string{}, ok: true, quant: quant}
	var body []string
	for _, a := range asserts {
		s := p.tr(a)
		if !p.ok {
			return "", false
		}
		body = append(body, strings.Join(p.defs, "\n"))
		p.defs = nil
		body = append(body, "(assert "+s+")")
	}
	var sb strings.Builder
	sb.WriteString("(set-logic ALL)\n")
	sb.WriteString(refDecl)
	for _, n := range tb.dtOrder {
		d := tb.dtDecl[n]
		fmt.Fprintf(&sb, "(declare-datatypes ((%s_I 0)) (((%s_I", d.Name, d.Ctor)
		for _, f := range d.Fields {
			fmt.Fprintf(&sb, " (%s_I %s)", f.Name, liaSort(f.Sort))
		}
		sb.WriteString("))))\n")
	}
	var names []string
	for n := range p.ufs {
		names = append(names, n)
	}
	sort.Strings(names)
	for _, n := range names {
		fmt.Fprintf(&sb, "(declare-fun %s %s)\n", n, p.ufs[n])
	}
	names = names[:0]
	for n := range p.consts {
		names = append(names, n)
	}
	sort.Strings(names)
	for _, n := range names {
		fmt.Fprintf(&sb, "(declare-const %s %s)\n", n, p.consts[n])
	}
	for _, l := range body {
		if l != "" {
			sb.WriteString(l)
			sb.WriteByte('\n')
		}
	}
	seen := map[string]bool{}
	for _, r := range p.ranges {
		if !seen[r] {
			seen[r] = true
			// range facts may mention definitions: they come last
			sb.WriteString("(assert " + r + ")\n")
		}
	}
	sb.WriteString("(check-sat)\n")
	return sb.String(), true
}

func (p *liaPrinter) addRange(t *Term, r string, w int) {
	if t != nil && t.open {
		return // dropping an assumption about an open term is sound
	}
	p.ranges = append(p.ranges, fmt.Sprintf("(and (<= 0 %s) (< %s %s))", r, r, pow2(w)))
}

// LIAScriptQ: as LIAScript, but quantified assumptions are kept (bound variables over Int).
func (tb *TB) LIAScriptQ(asserts []*Term) (string, bool) {
	return tb.liaScript(asserts, true)
}

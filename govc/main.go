package main

import (
	"strconv"
	"flag"
	"go/types"
	"fmt"
	"go/ast"
	"os"
	"path/filepath"
	"sort"
	"strings"
	"sync"
	"time"

	"golang.org/x/tools/go/packages"
	"golang.org/x/tools/go/ssa"
	"golang.org/x/tools/go/ssa/ssautil"
)

var targetPkgs = []string{"github.com/gobwas/ws", "github.com/gobwas/ws/wsutil", "github.com/gobwas/ws/wsflate"}

type Loaded struct {
	Engine *Engine
	CS     *ContractSet
	Pkgs   []*packages.Package
	Gen    map[string]string
	Errs   []string
}

func loadPkgs(repo string, overlay map[string][]byte) ([]*packages.Package, error) {
	cfg := &packages.Config{Mode: packages.LoadAllSyntax, Dir: repo, BuildFlags: []string{"-tags=verif"}, Overlay: overlay,
		Env: append(os.Environ(), "GOFLAGS=-mod=mod", "GOPROXY=off", "GOSUMDB=off", "GOTOOLCHAIN=local")}
	return packages.Load(cfg, targetPkgs...)
}

func Load(repo string, extraContracts string) (*Loaded, error) {
	L := &Loaded{Gen: map[string]string{}}
	pkgs, err := loadPkgs(repo, nil)
	if err != nil {
		return nil, err
	}
	cs := &ContractSet{ByKey: map[string]*Contract{}}
	for _, p := range pkgs {
		for _, e := range p.Errors {
			L.Errs = append(L.Errs, "load: "+e.Error())
		}
		dir := repo
		if len(p.GoFiles) > 0 {
			dir = filepath.Dir(p.GoFiles[0])
		}
		ParseContractFile(filepath.Join(dir, contractFile), p.PkgPath, cs)
	}
	L.Errs = append(L.Errs, cs.Errs...)
	var pkgs2 []*packages.Package
	for round := 0; ; round++ {
		overlay := map[string][]byte{}
		var genErrs []string
		for _, p := range pkgs {
			if len(p.GoFiles) == 0 {
				continue
			}
			src, errs := GenerateWrappers(p, cs)
			genErrs = append(genErrs, errs...)
			dir := filepath.Dir(p.GoFiles[0])
			overlay[filepath.Join(dir, genFile)] = []byte(src)
			L.Gen[p.PkgPath] = src
		}
		var err error
		pkgs2, err = loadPkgs(repo, overlay)
		if err != nil {
			return nil, err
		}
		// a wrapper that does not type-check belongs to one function's contract: mark that contract
		// stale and generate again without it, so that the rest of the package stays checkable
		var loadErrs []string
		again := false
		for _, p := range pkgs2 {
			for _, e := range p.Errors {
				if c, kind := staleContractOf(e.Pos, overlay, cs); c != nil && round < 4 {
					loopKind := kind == "invariant" || kind == "decreases"
					if c.Stale == "" {
						c.Stale = e.Msg
						c.StaleLoopsOnly = loopKind
					} else if !loopKind {
						c.StaleLoopsOnly = false
					}
					again = true
					continue
				}
				loadErrs = append(loadErrs, "load(gen): "+e.Error())
			}
		}
		if again {
			continue
		}
		L.Errs = append(L.Errs, genErrs...)
		L.Errs = append(L.Errs, loadErrs...)
		break
	}
	prog, spkgs := ssautil.AllPackages(pkgs2, ssa.NaiveForm|ssa.InstantiateGenerics)
	prog.Build()
	eng := NewEngine(prog)
	eng.cs = cs
	eng.astPkgs = map[string][]*ast.File{}
	for i, p := range pkgs2 {
		if spkgs[i] != nil {
			eng.ssaPkgs[p.PkgPath] = spkgs[i]
		}
	}
	packages.Visit(pkgs2, nil, func(p *packages.Package) {
		eng.astPkgs[p.PkgPath] = p.Syntax
	})
	for _, c := range cs.Order {
		if c.IsIface {
			eng.ifContract[c.Key] = c
			eng.ifContractPkg[c.PkgPath+"\x00"+c.Key] = c
		}
		if c.External {
			eng.extContract[c.Key] = c
		}
	}
	L.Engine, L.CS, L.Pkgs = eng, cs, pkgs2
	return L, nil
}

type OblResult struct {
	O      *Obligation
	C      *Contract
	R      *SolveResult
	File   string
	Status string // proved failed cover-ok cover-failed unproved-skip
	Replayed bool
	Part   *FuncResult
	ReplayNote string
	ReplayFile string
}

func main() {
	if len(os.Args) < 2 {
		fmt.Fprintln(os.Stderr, "usage: govc <verify|check|gen|selftest> ...")
		os.Exit(2)
	}
	switch os.Args[1] {
	case "gen":
		cmdGen(os.Args[2:])
	case "ssa":
		L, err := Load("/repo", "")
		if err != nil {
			panic(err)
		}
		for _, p := range L.Engine.ssaPkgs {
			for _, m := range p.Members {
				if f, ok := m.(*ssa.Function); ok && strings.Contains(f.Name(), os.Args[2]) {
					f.WriteTo(os.Stdout)
					for _, a := range f.AnonFuncs {
						a.WriteTo(os.Stdout)
					}
				}
				if t, ok := m.(*ssa.Type); ok {
					for _, tt := range []types.Type{t.Type(), types.NewPointer(t.Type())} {
						ms := L.Engine.prog.MethodSets.MethodSet(tt)
						for i := 0; i < ms.Len(); i++ {
							f := L.Engine.prog.MethodValue(ms.At(i))
							if f != nil && f.Synthetic == "" && strings.Contains(f.Name(), os.Args[2]) {
								f.WriteTo(os.Stdout)
							}
						}
					}
				}
			}
		}
	case "locals":
		cmdLocals(os.Args[2:])
	case "verify":
		cmdVerify(os.Args[2:])
	case "check":
		cmdCheck(os.Args[2:])
	default:
		fmt.Fprintln(os.Stderr, "unknown command")
		os.Exit(2)
	}
}

func cmdGen(args []string) {
	fs := flag.NewFlagSet("gen", flag.ExitOnError)
	repo := fs.String("repo", "/repo", "repository")
	fs.Parse(args)
	L, err := Load(*repo, "")
	if err != nil {
		fmt.Fprintln(os.Stderr, err)
		os.Exit(2)
	}
	for p, s := range L.Gen {
		fmt.Printf("// ===== %s\n%s\n", p, s)
	}
	for _, e := range L.Errs {
		fmt.Println("ERR:", e)
	}
}

// verifyAll runs VC generation and solving for the selected contracts.
func verifyAll(L *Loaded, sel func(c *Contract) bool, workDir string, timeout time.Duration, all bool, verbose bool, only string) ([]*FuncResult, []*OblResult) {
	e := L.Engine
	var frs []*FuncResult
	var ors []*OblResult
	type job struct {
		fr   *FuncResult
		o    *Obligation
		file string
		qf   string
		lia  string
	}
	var jobs []job
	for _, c := range L.CS.Order {
		if c.IsIface || c.Trusted || c.External || !sel(c) {
			continue
		}
		t0 := time.Now()
		var fr *FuncResult
		if c.Lemma {
			fr = e.VerifyLemma(c)
		} else {
			fr = e.VerifyFunction(c)
		}
		frs = append(frs, fr)
		if verbose {
			fmt.Fprintf(os.Stderr, "  vcgen %-40s %d obligations, %d facts, %d runs, %.2fs %s\n", fr.Name, len(fr.Obls), len(fr.Facts), fr.Runs, time.Since(t0).Seconds(), fr.Err)
		}
		parts := fr.Parts
		if len(parts) == 0 {
			parts = []*FuncResult{fr}
		}
		for _, part := range parts {
			for _, o := range part.Obls {
				if only != "" && !strings.Contains(o.Name, only) {
					continue
				}
				q := e.Query(part, o)
				var gv []*Term
				if !o.Cover {
					gv = fr.Params
				}
				script := e.tb.Script(q, gv, false)
				f := writeScript(workDir, o.Name, script)
				j := job{fr: part, o: o, file: f}
				qf := e.QueryQF(part, o)
				if qf != nil {
					j.qf = writeScript(workDir, o.Name+".qf", e.tb.Script(qf, nil, false))
				}
				if !o.Cover {
					src := qf
					if src == nil {
						src = q
					}
					if ls, ok := e.tb.LIAScript(src); ok {
						j.lia = writeScript(workDir, o.Name+".lia", ls)
					}
					if qf != nil && os.Getenv("GOVC_INTQ") != "" {
						// the obligation has quantified assumptions: also try them over the integers
						if ls, ok := e.tb.LIAScriptQ(q); ok {
							j.lia += ";" + writeScript(workDir, o.Name+".liaq", ls)
						}
					}
				}
				jobs = append(jobs, j)
			}
		}
	}
	results := make([]*OblResult, len(jobs))
	classify := func(j job, r *SolveResult) *OblResult {
		or := &OblResult{O: j.o, C: j.fr.Contract, R: r, File: j.file, Part: j.fr}
		switch {
		case j.o.Cover && r.Status == "sat":
			or.Status = "cover-ok"
		case j.o.Cover && r.Status == "unsat":
			or.Status = "cover-failed"
		case j.o.Cover:
			or.Status = "cover-unknown"
		case r.Status == "unsat":
			or.Status = "proved"
		default:
			or.Status = "failed"
		}
		return or
	}
	undecided := func(or *OblResult) bool {
		if or.O.Unproved != "" {
			return false // attempted once, never claimed
		}
		return or.Status == "cover-unknown" || (or.Status == "failed" && or.R.Status != "sat")
	}
	// Scheduling: a first pass with a short limit and many obligations in flight settles the easy
	// ones; the rest are re-run with the full limit and few in flight, and what is still undecided
	// (at most a handful) once more alone with twice the limit, so that a machine under load does
	// not turn a slow proof into an alarm.
	runPass := func(idx []int, par int, to time.Duration) {
		var wg sync.WaitGroup
		sem := make(chan struct{}, par)
		for _, i := range idx {
			wg.Add(1)
			go func(i int) {
				defer wg.Done()
				sem <- struct{}{}
				defer func() { <-sem }()
				j := jobs[i]
				results[i] = classify(j, Solve(j.file, j.qf, j.lia, to, all, j.o.Cover))
			}(i)
		}
		wg.Wait()
	}
	var idx []int
	for i := range jobs {
		idx = append(idx, i)
	}
	short := 25 * time.Second
	if timeout < short {
		short = timeout
	}
	runPass(idx, 8, short)
	var rest []int
	for _, i := range idx {
		if undecided(results[i]) {
			rest = append(rest, i)
		}
	}
	if len(rest) > 0 && timeout > short {
		runPass(rest, 3, timeout)
		var last []int
		for _, i := range rest {
			if undecided(results[i]) {
				last = append(last, i)
			}
		}
		if len(last) > 0 && len(last) <= 4 {
			runPass(last, 1, 2*timeout)
		}
	}
	ors = results
	return frs, ors
}

// staleContractOf maps a type error inside a generated wrapper file to the function contract the
// wrapper was generated from ("// <key> <kind> [label] (file:line)" precedes every wrapper).
func staleContractOf(pos string, overlay map[string][]byte, cs *ContractSet) (*Contract, string) {
	f := strings.Split(pos, ":")
	if len(f) < 2 {
		return nil, ""
	}
	src, ok := overlay[f[0]]
	if !ok {
		return nil, ""
	}
	ln, err := strconv.Atoi(f[1])
	if err != nil {
		return nil, ""
	}
	lines := strings.Split(string(src), "\n")
	pkgPath := ""
	for _, c := range cs.Order {
		if c.Pkg != nil && len(c.Pkg.GoFiles) > 0 && filepath.Dir(c.Pkg.GoFiles[0]) == filepath.Dir(f[0]) {
			pkgPath = c.PkgPath
			break
		}
	}
	for i := ln - 1; i >= 0 && i < len(lines); i-- {
		if strings.HasPrefix(lines[i], "// ") && i+1 < len(lines) && strings.HasPrefix(lines[i+1], "func vc_") {
			fl := strings.Fields(lines[i][3:])
			key := strings.TrimSuffix(fl[0], ":")
			kind := ""
			if len(fl) > 1 {
				kind = fl[1]
			}
			for _, c := range cs.Order {
				if c.PkgPath == pkgPath && c.Key == key && !c.IsIface && !c.Lemma && !c.External {
					return c, kind
				}
			}
			return nil, ""
		}
	}
	return nil, ""
}

// cmdLocals records, for every function contract with loop clauses, the function's locals in
// source order ("//@   locals name:type ..."), so that later pure renames can be followed.
func cmdLocals(args []string) {
	fs := flag.NewFlagSet("locals", flag.ExitOnError)
	repo := fs.String("repo", "/repo", "repository")
	write := fs.Bool("write", false, "update the contract files in place")
	fs.Parse(args)
	L, err := Load(*repo, "")
	if err != nil {
		fmt.Fprintln(os.Stderr, err)
		os.Exit(2)
	}
	byFile := map[string][]*Contract{}
	for _, c := range L.CS.Order {
		if (len(c.Loops) > 0 && len(c.CurLocals) > 0) || len(c.CurSig) > 1 {
			byFile[c.File] = append(byFile[c.File], c)
			if !*write {
				fmt.Printf("%s: sig %s | locals %s\n", c.FullName(), strings.Join(c.CurSig, " "), strings.Join(c.CurLocals, " "))
			}
		}
	}
	if !*write {
		return
	}
	for f, cs := range byFile {
		b, err := os.ReadFile(f)
		if err != nil {
			fmt.Fprintln(os.Stderr, err)
			os.Exit(2)
		}
		lines := strings.Split(string(b), "\n")
		at := map[int]*Contract{}
		for _, c := range cs {
			at[c.Line] = c
		}
		var out []string
		var pending *Contract
		for i, l := range lines {
			if strings.HasPrefix(l, "//@   locals ") || strings.HasPrefix(l, "//@   sig ") {
				continue // rewritten below
			}
			out = append(out, l)
			if c, ok := at[i+1]; ok {
				pending = c
			}
			if pending != nil && strings.HasPrefix(l, "//@   props ") {
				if len(pending.CurSig) > 1 {
					out = append(out, "//@   sig "+strings.Join(pending.CurSig, " "))
				}
				if len(pending.Loops) > 0 && len(pending.CurLocals) > 0 {
					out = append(out, "//@   locals "+strings.Join(pending.CurLocals, " "))
				}
				pending = nil
			}
		}
		os.WriteFile(f, []byte(strings.Join(out, "\n")), 0o644)
		fmt.Printf("%s: %d functions\n", f, len(cs))
	}
}

func cmdVerify(args []string) {
	fs := flag.NewFlagSet("verify", flag.ExitOnError)
	repo := fs.String("repo", "/repo", "repository")
	fn := fs.String("func", "", "substring of pkg.Func to verify (empty: all)")
	only := fs.String("only", "", "substring of obligation names to solve")
	work := fs.String("work", "/verif/work/verify", "work dir")
	to := fs.Duration("timeout", 10*time.Second, "per-query timeout")
	all := fs.Bool("all", false, "run all solvers to completion")
	debug := fs.Bool("debug", false, "for failed obligations print values of the goal's atoms from a model of the instantiated variant")
	fs.Parse(args)
	t0 := time.Now()
	L, err := Load(*repo, "")
	if err != nil {
		fmt.Fprintln(os.Stderr, err)
		os.Exit(2)
	}
	for _, e := range L.Errs {
		fmt.Println("ERR:", e)
	}
	fmt.Fprintf(os.Stderr, "loaded in %.1fs\n", time.Since(t0).Seconds())
	os.RemoveAll(*work)
	frs, ors := verifyAll(L, func(c *Contract) bool { return *fn == "" || strings.Contains(c.FullName(), *fn) }, *work, *to, *all, true, *only)
	for _, fr := range frs {
		if fr.Err != "" {
			fmt.Printf("OUTSIDE %s: %s\n", fr.Name, fr.Err)
		}
		for _, n := range fr.Notes {
			fmt.Printf("NOTE %s: %s\n", fr.Name, n)
		}
	}
	sort.Slice(ors, func(i, j int) bool { return ors[i].O.Name < ors[j].O.Name })
	bad := 0
	for _, or := range ors {
		mark := "ok  "
		if or.Status == "failed" || or.Status == "cover-failed" || or.Status == "cover-unknown" {
			mark = "FAIL"
			bad++
		}
		extra := ""
		if or.O.Unproved != "" {
			extra = " (unproved: " + or.O.Unproved + ")"
		}
		fmt.Printf("%s %-70s %-8s %-7s %.2fs%s\n", mark, or.O.Name, or.R.Status, or.R.Solver, or.R.Seconds, extra)
		if mark == "FAIL" && *debug {
			debugModel(L, frs, or, *work)
		}
		if mark == "FAIL" && or.R.Status == "sat" {
			lines := strings.Split(or.R.Output, "\n")
			if len(lines) > 12 {
				lines = lines[:12]
			}
			fmt.Println("     " + strings.Join(lines, "\n     "))
		}
		if or.R.Status == "error" {
			fmt.Println("     " + strings.SplitN(or.R.Output, "\n", 3)[0])
		}
	}
	fmt.Printf("%d obligations, %d not ok, %.1fs\n", len(ors), bad, time.Since(t0).Seconds())
}


// debugModel prints the values of the atoms of a failed goal in a model of the instantiated (QF) variant.
func debugModel(L *Loaded, frs []*FuncResult, or *OblResult, work string) {
	e := L.Engine
	var fr *FuncResult
	for _, f := range frs {
		parts := f.Parts
		if len(parts) == 0 {
			parts = []*FuncResult{f}
		}
		for _, p := range parts {
			for _, o := range p.Obls {
				if o == or.O {
					fr = p
				}
			}
		}
	}
	if fr == nil {
		return
	}
	q := e.QueryQF(fr, or.O)
	if q == nil || or.R.Status == "sat" {
		q = e.Query(fr, or.O)
	}
	goal := e.skolemize(or.O.Goal)
	var atoms []*Term
	seen := map[*Term]bool{}
	var rec func(t *Term, d int)
	rec = func(t *Term, d int) {
		if seen[t] || len(atoms) > 40 || t.open {
			return
		}
		seen[t] = true
		switch t.Op {
		case "and", "or", "not", "=>", "ite":
			if t.Sort == SBool {
				for _, a := range t.Args {
					rec(a, d+1)
				}
				atoms = append(atoms, t)
				return
			}
		case "=", "bvslt", "bvsle", "bvult", "bvule", "bvsgt", "bvsge":
			for _, a := range t.Args {
				if !a.IsLit() {
					atoms = append(atoms, a)
				}
			}
		}
		atoms = append(atoms, t)
	}
	rec(goal, 0)
	// quantified facts instantiated at the goal's skolem constants: a false one is a missing instance
	var sks []*Term
	{
		vis := map[*Term]bool{}
		var find func(t *Term)
		find = func(t *Term) {
			if vis[t] {
				return
			}
			vis[t] = true
			if t.Op == "const" && strings.HasPrefix(t.Name, "sk_") && t.Sort == SBV64 {
				sks = append(sks, t)
			}
			for _, a := range t.Args {
				find(a)
			}
		}
		find(goal)
	}
	var instOf func(f *Term, sk *Term) []*Term
	instOf = func(f *Term, sk *Term) []*Term {
		switch f.Op {
		case "and":
			var out []*Term
			for _, a := range f.Args {
				out = append(out, instOf(a, sk)...)
			}
			return out
		case "=>":
			var out []*Term
			for _, x := range instOf(f.Args[1], sk) {
				out = append(out, e.tb.Implies(f.Args[0], x))
			}
			return out
		case "forall":
			if len(f.Bnd) == 1 && f.Bnd[0].Sort == SBV64 {
				return []*Term{e.tb.Subst(f.Args[0], map[*Term]*Term{f.Bnd[0]: sk})}
			}
		}
		return nil
	}
	for _, f := range e.relevantFacts(fr, or.O) {
		if !hasQuant(f) {
			continue
		}
		for _, sk := range sks {
			for _, in := range instOf(f, sk) {
				if !in.open && len(atoms) < 200 {
					atoms = append(atoms, in)
				}
			}
		}
	}
	atoms = append(atoms, fr.Params...)
	script := e.tb.Script(q, atoms, false)
	f := writeScript(work, or.O.Name+".dbg", script)
	r := Solve(f, "", "", 30*time.Second, false)
	fmt.Printf("     --- debug model (%s) for %s\n", r.Status, or.O.Name)
	out := r.Output
	i := strings.Index(out, "((")
	if i < 0 {
		fmt.Println("     " + out)
		return
	}
	// split the top-level list into (expr value) pairs
	body := out[i+1:]
	depth := 0
	start := -1
	var pairs []string
	for k := 0; k < len(body); k++ {
		switch body[k] {
		case '(':
			if depth == 0 {
				start = k
			}
			depth++
		case ')':
			depth--
			if depth == 0 && start >= 0 {
				pairs = append(pairs, body[start:k+1])
				start = -1
			}
			if depth < 0 {
				k = len(body)
			}
		}
	}
	for idx, p := range pairs {
		if idx >= len(atoms) {
			break
		}
		// value = last s-expression of the pair
		p = strings.TrimSpace(p[1 : len(p)-1])
		val := p
		d := 0
		for k := len(p) - 1; k >= 0; k-- {
			c := p[k]
			if c == ')' {
				d++
			} else if c == '(' {
				d--
			}
			if d == 0 && (c == ' ' || c == '\n') {
				val = strings.TrimSpace(p[k:])
				break
			}
		}
		a := atoms[idx]
		if a.Sort == SBool && val == "true" && idx < len(atoms)-len(fr.Params) {
			continue // show only what is false or non-boolean
		}
		sh := e.tb.Show(a)
		if len(sh) > 260 {
			sh = sh[:260] + "..."
		}
		fmt.Printf("     %s\n        = %s\n", sh, strings.Join(strings.Fields(val), " "))
	}
}

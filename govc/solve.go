package main

// Solver race: z3 4.8.12, z3-new 5.1.0, cvc5 1.0.x per obligation.

import (
	"bytes"
	"context"
	"fmt"
	"os"
	"os/exec"
	"path/filepath"
	"strings"
	"time"
)

type SolveResult struct {
	Status  string // unsat sat unknown timeout error
	Solver  string
	Seconds float64
	Output  string
	All     map[string]string // per-solver status (thorough)
	Model   string
}

type solverSpec struct {
	name string
	argv func(file string, timeout time.Duration) []string
}

var solvers = []solverSpec{
	{"z3-new", func(f string, t time.Duration) []string {
		return []string{"z3-new", fmt.Sprintf("-T:%d", int(t.Seconds())+1), f}
	}},
	{"z3", func(f string, t time.Duration) []string {
		return []string{"/usr/bin/z3", fmt.Sprintf("-T:%d", int(t.Seconds())+1), f}
	}},
	{"cvc5", func(f string, t time.Duration) []string {
		return []string{"cvc5", "--lang=smt2", fmt.Sprintf("--tlimit=%d", int(t.Milliseconds())), "--full-saturate-quant", f}
	}},
}

func parseStatus(out string) string {
	// an error reported before the answer invalidates the run; errors after it come from the
	// (get-value ...) that follows an unsat answer and are harmless
	for _, l := range strings.Split(out, "\n") {
		t := strings.TrimSpace(l)
		if t == "sat" || t == "unsat" || t == "unknown" {
			break
		}
		if strings.HasPrefix(t, "(error") {
			return "error"
		}
	}
	for _, l := range strings.Split(out, "\n") {
		l = strings.TrimSpace(l)
		switch l {
		case "sat", "unsat", "unknown":
			return l
		case "timeout":
			return "timeout"
		}
		if l != "" && !strings.HasPrefix(l, ";") && !strings.HasPrefix(l, "(") {
			if strings.Contains(l, "timeout") || strings.Contains(l, "interrupted") {
				return "timeout"
			}
		}
	}
	if strings.Contains(out, "error") {
		return "error"
	}
	return "unknown"
}

// Solve runs the solvers on the full script and, if given, on the instantiated (QF) variant.
// An unsat answer from either is a proof; only a sat answer on the full script is a counterexample.
func Solve(file, qfFile, liaFile string, timeout time.Duration, all bool, cover ...bool) *SolveResult {
	isCover := len(cover) > 0 && cover[0]
	ctx, cancel := context.WithTimeout(context.Background(), timeout+2*time.Second)
	defer cancel()
	type ans struct {
		solver string
		status string
		out    string
		secs   float64
		qf     bool
	}
	type run struct {
		s    solverSpec
		file string
		qf   bool
	}
	var runs []run
	for _, s := range solvers {
		runs = append(runs, run{s, file, false})
	}
	if qfFile != "" {
		for _, s := range solvers {
			if s.name == "cvc5" {
				continue
			}
			runs = append(runs, run{s, qfFile, true})
		}
	}
	for i, lf := range strings.Split(liaFile, ";") {
		if lf == "" {
			continue
		}
		suffix := "+int"
		if i == 1 {
			suffix = "+intq" // integer variant that keeps the quantified assumptions
		}
		for _, s := range solvers {
			if s.name == "z3" || (i == 1 && s.name == "cvc5") {
				continue
			}
			runs = append(runs, run{solverSpec{s.name + suffix, s.argv}, lf, true})
		}
	}
	ch := make(chan ans, len(runs))
	for _, r := range runs {
		go func(r run) {
			// staged start: z3-new first; the other solvers only join if it has not answered quickly
			if r.s.name != "z3-new" && r.s.name != "z3-new+int" {
				select {
				case <-ctx.Done():
					ch <- ans{r.s.name, "unknown", "", 0, r.qf}
					return
				case <-time.After(1500 * time.Millisecond):
				}
			}
			argv := r.s.argv(r.file, timeout)
			t0 := time.Now()
			cmd := exec.CommandContext(ctx, argv[0], argv[1:]...)
			var buf bytes.Buffer
			cmd.Stdout = &buf
			cmd.Stderr = &buf
			cmd.Run()
			st := parseStatus(buf.String())
			if ctx.Err() != nil && st != "sat" && st != "unsat" {
				st = "timeout"
			}
			name := r.s.name
			if r.qf && !strings.HasSuffix(name, "+int") {
				name += "+inst"
			}
			ch <- ans{name, st, buf.String(), time.Since(t0).Seconds(), r.qf}
		}(r)
	}
	res := &SolveResult{Status: "unknown", All: map[string]string{}}
	var grace <-chan time.Time
	for got := 0; got < len(runs); got++ {
		var a ans
		select {
		case a = <-ch:
		case <-grace:
			// thorough tier: the other solvers had their chance to contradict the first answer
			cancel()
			grace = nil
			a = <-ch
		}
		res.All[a.solver] = a.status
		decisive := a.status == "unsat" || (a.status == "sat" && (!a.qf || isCover))
		if decisive {
			if res.Status != "sat" && res.Status != "unsat" {
				res.Status, res.Solver, res.Seconds, res.Output = a.status, a.solver, a.secs, a.out
				if !all {
					cancel()
					break
				}
				grace = time.After(6 * time.Second)
			} else if res.Status != a.status {
				res.Status = "error"
				res.Output += "\nSOLVER DISAGREEMENT: " + a.solver + " says " + a.status
			}
			continue
		}
		if res.Status == "unknown" || res.Status == "timeout" {
			if a.status == "timeout" && !a.qf {
				res.Status = "timeout"
			}
			if a.secs > res.Seconds {
				res.Seconds = a.secs
			}
			if !a.qf && (res.Output == "" || a.status == "error") {
				res.Output = a.out
			}
		}
	}
	return res
}

func writeScript(dir, name, script string) string {
	os.MkdirAll(dir, 0o755)
	f := filepath.Join(dir, sanitize(name)+".smt2")
	os.WriteFile(f, []byte(script), 0o644)
	return f
}

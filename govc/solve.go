package main

// Solver race: z3 4.8.12, z3-new 5.1.0, cvc5 1.0.x per obligation.

import (
	"bytes"
	"context"
	"fmt"
	"os"
	"os/exec"
	"path/filepath"
	"strings"
	"sync"
	"time"
)

type SolveResult struct {
	Status  string // unsat sat unknown timeout error
	Solver  string
	Seconds float64
	Output  string
	All     map[string]string // per-solver status (thorough)
	Model   string
}

type solverSpec struct {
	name string
	argv func(file string, timeout time.Duration) []string
}

var solvers = []solverSpec{
	{"z3-new", func(f string, t time.Duration) []string {
		return []string{"z3-new", fmt.Sprintf("-T:%d", int(t.Seconds())+1), f}
	}},
	{"z3", func(f string, t time.Duration) []string {
		return []string{"/usr/bin/z3", fmt.Sprintf("-T:%d", int(t.Seconds())+1), f}
	}},
	{"cvc5", func(f string, t time.Duration) []string {
		return []string{"cvc5", "--lang=smt2", fmt.Sprintf("--tlimit=%d", int(t.Milliseconds())), "--full-saturate-quant", f}
	}},
}

func parseStatus(out string) string {
	for _, l := range strings.Split(out, "\n") {
		l = strings.TrimSpace(l)
		switch l {
		case "sat", "unsat", "unknown":
			return l
		case "timeout":
			return "timeout"
		}
		if l != "" && !strings.HasPrefix(l, ";") && !strings.HasPrefix(l, "(") {
			if strings.Contains(l, "timeout") || strings.Contains(l, "interrupted") {
				return "timeout"
			}
		}
	}
	if strings.Contains(out, "error") {
		return "error"
	}
	return "unknown"
}

// Solve runs the solvers on the script. In race mode the first sat/unsat answer wins.
func Solve(file string, timeout time.Duration, all bool, which []string) *SolveResult {
	ctx, cancel := context.WithTimeout(context.Background(), timeout+2*time.Second)
	defer cancel()
	type ans struct {
		solver string
		status string
		out    string
		secs   float64
	}
	ch := make(chan ans, len(solvers))
	var wg sync.WaitGroup
	n := 0
	for _, s := range solvers {
		if len(which) > 0 {
			ok := false
			for _, w := range which {
				if w == s.name {
					ok = true
				}
			}
			if !ok {
				continue
			}
		}
		n++
		wg.Add(1)
		go func(s solverSpec) {
			defer wg.Done()
			argv := s.argv(file, timeout)
			t0 := time.Now()
			cmd := exec.CommandContext(ctx, argv[0], argv[1:]...)
			var buf bytes.Buffer
			cmd.Stdout = &buf
			cmd.Stderr = &buf
			cmd.Run()
			st := parseStatus(buf.String())
			if ctx.Err() != nil && st != "sat" && st != "unsat" {
				st = "timeout"
			}
			ch <- ans{s.name, st, buf.String(), time.Since(t0).Seconds()}
		}(s)
	}
	res := &SolveResult{Status: "unknown", All: map[string]string{}}
	got := 0
	for got < n {
		a := <-ch
		got++
		res.All[a.solver] = a.status
		if a.status == "sat" || a.status == "unsat" {
			if res.Status != "sat" && res.Status != "unsat" {
				res.Status, res.Solver, res.Seconds, res.Output = a.status, a.solver, a.secs, a.out
				if !all {
					cancel()
				}
			} else if res.Status != a.status {
				res.Status = "error"
				res.Output += "\nSOLVER DISAGREEMENT: " + a.solver + " says " + a.status
			}
		} else if res.Status == "unknown" {
			if a.status == "timeout" {
				res.Status = "timeout"
			}
			if a.secs > res.Seconds {
				res.Seconds = a.secs
			}
			if res.Output == "" || a.status == "error" {
				res.Output = a.out
			}
		}
		if !all && (res.Status == "sat" || res.Status == "unsat") {
			break
		}
	}
	go func() { wg.Wait() }()
	if res.Status == "timeout" && (res.All["z3"] == "error" || res.All["z3-new"] == "error" || res.All["cvc5"] == "error") {
		// keep timeout but remember the error output
	}
	return res
}

func writeScript(dir, name, script string) string {
	os.MkdirAll(dir, 0o755)
	f := filepath.Join(dir, sanitize(name)+".smt2")
	os.WriteFile(f, []byte(script), 0o644)
	return f
}

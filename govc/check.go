package main

// The per-property check: verify every function whose contract lists the property, write
// evidence/<id>.json, print VIOLATION / KNOWN-FINDING lines, exit 0 or 1.

import (
	"os/exec"
	"crypto/sha256"
	"encoding/json"
	"flag"
	"fmt"
	"os"
	"path/filepath"
	"sort"
	"strconv"
	"strings"
	"time"
)

type KnownFinding struct {
	Property   string `json:"property"`
	Obligation string `json:"obligation"`
	Status     string `json:"status"` // open | fixed
	What       string `json:"what"`
	Witness    string `json:"witness,omitempty"`
	Commit     string `json:"commit,omitempty"`
	Line       string `json:"line,omitempty"`
}

func loadKnown(path string) []KnownFinding {
	var out struct {
		Findings []KnownFinding `json:"findings"`
	}
	data, err := os.ReadFile(path)
	if err != nil {
		return nil
	}
	json.Unmarshal(data, &out)
	return out.Findings
}

func hasProp(c *Contract, id string) bool {
	for _, p := range c.Props {
		if p == id {
			return true
		}
	}
	return false
}

// specVectorPkgs: where the RFC example vectors relevant to a property live (thorough tier).
var specVectorPkgs = map[string][]string{
	"C01": {"."}, "C02": {"."}, "C03": {"."}, "C05": {"."}, "C09": {"."}, "C10": {"."},
	"C04": {"./wsutil"}, "C07": {"./wsutil"}, "C12": {"./wsflate"},
}

func cmdCheck(args []string) {
	fs := flag.NewFlagSet("check", flag.ExitOnError)
	repo := fs.String("repo", "/repo", "repository")
	prop := fs.String("prop", "", "property id")
	tier := fs.String("tier", "quick", "quick|thorough")
	verif := fs.String("verif", "/verif", "verif dir")
	fs.Parse(args)
	t0 := time.Now()
	seed := 0
	if s := os.Getenv("VERIF_SEED"); s != "" {
		seed, _ = strconv.Atoi(s)
	}
	timeout := 45 * time.Second
	all := false
	if *tier == "thorough" {
		timeout = 120 * time.Second
		all = true
	}
	evPath := filepath.Join(*verif, "evidence", *prop+".json")
	os.MkdirAll(filepath.Dir(evPath), 0o755)
	work := filepath.Join(*verif, "work", *prop)
	os.RemoveAll(work)
	replayDir := filepath.Join(*verif, "replay", *prop)
	os.RemoveAll(replayDir)
	os.MkdirAll(replayDir, 0o755)

	L, err := Load(*repo, "")
	if err != nil {
		fmt.Println("BROKEN: cannot load repository:", err)
		os.Exit(2)
	}
	known := loadKnown(filepath.Join(*verif, "known-findings.json"))
	frs, ors0 := verifyAll(L, func(c *Contract) bool { return hasProp(c, *prop) || clauseHasProp(c, *prop) }, work, timeout, all, false, "")
	var ors []*OblResult
	for _, or := range ors0 {
		if oblInProp(or.O, or.C, *prop) {
			ors = append(ors, or)
		}
	}

	type sample struct {
		Obligation string  `json:"obligation"`
		Kind       string  `json:"kind"`
		Status     string  `json:"status"`
		Solver     string  `json:"solver"`
		Seconds    float64 `json:"seconds"`
		SMTSha     string  `json:"smt_sha256,omitempty"`
	}
	samples := []sample{}
	var violations []string
	var knownLines []string
	var unproved []string
	solverWins := map[string]int{}
	solverTime := 0.0
	nObl, nDis := 0, 0
	nCover, nCoverOK := 0, 0
	nReplays, nReplayed := 0, 0
	_ = nReplayed
	var outside []string
	var notes []string
	var funcs []string
	for _, fr := range frs {
		funcs = append(funcs, fr.Name)
		if fr.Err != "" {
			outside = append(outside, fr.Name+": "+fr.Err)
		}
		for _, n := range fr.Notes {
			notes = append(notes, fr.Name+": "+n)
		}
	}
	sort.Slice(ors, func(i, j int) bool { return ors[i].O.Name < ors[j].O.Name })
	isKnown := func(name string) *KnownFinding {
		for i := range known {
			// an open finding is identified by its obligation; the function may be listed under several
			// properties (ReadFrame: C01, C15, C16) and the obligation is reported under each of them
			if known[i].Status == "open" && known[i].Obligation == name {
				return &known[i]
			}
		}
		return nil
	}
	for _, or := range ors {
		solverTime += or.R.Seconds
		if or.R.Solver != "" {
			solverWins[or.R.Solver]++
		}
		sm := sample{Obligation: or.O.Name, Kind: or.O.Kind, Status: or.Status, Solver: or.R.Solver, Seconds: or.R.Seconds}
		if data, err := os.ReadFile(or.File); err == nil {
			sm.SMTSha = fmt.Sprintf("%x", sha256.Sum256(data))[:16]
		}
		if or.O.Cover {
			nCover++
			if or.Status == "cover-ok" {
				nCoverOK++
			} else {
				violations = append(violations, writeReplay(replayDir, *prop, or, "vacuity guard failed: preconditions contradictory or no return reachable (broken check)"))
			}
			samples = append(samples, sm)
			continue
		}
		if or.O.Unproved != "" {
			if or.Status != "proved" {
				unproved = append(unproved, or.O.Name+": "+or.O.Unproved+" ("+or.R.Status+")")
			} else {
				unproved = append(unproved, or.O.Name+": "+or.O.Unproved+" (discharged in this run, still not claimed)")
			}
			continue
		}
		nObl++
		if or.Status == "proved" {
			nDis++
			samples = append(samples, sm)
			continue
		}
		if kf := isKnown(or.O.Name); kf != nil {
			knownLines = append(knownLines, fmt.Sprintf("KNOWN-FINDING: property=%s %s %s", *prop, or.O.Name, kf.What))
			sm.Status = "known-finding"
			samples = append(samples, sm)
			nObl-- // a recorded finding is neither claimed nor counted as discharged
			continue
		}
		samples = append(samples, sm)
		if nReplays < 4 && replayableKind(or.O.Kind) {
			nReplays++
			ro := L.Engine.tryReplay(or, or.Part, *repo, replayDir)
			or.ReplayNote, or.ReplayFile, or.Replayed = ro.Note, ro.TestFile, ro.Confirmed
			if ro.Confirmed {
				nReplayed++
			}
		}
		violations = append(violations, writeReplay(replayDir, *prop, or, or.ReplayNote))
	}
	// a function that left the subset is a failed (undecided) obligation of its own
	for _, fr := range frs {
		if fr.Err == "" {
			continue
		}
		name := fr.Name + "/in-subset"
		if kf := isKnown(name); kf != nil {
			knownLines = append(knownLines, fmt.Sprintf("KNOWN-FINDING: property=%s %s %s", *prop, name, kf.What))
			continue
		}
		nObl++
		p := filepath.Join(replayDir, sanitize(name)+".txt")
		os.WriteFile(p, []byte("obligation: "+name+"\nstatus: undecided\nreason: "+fr.Err+"\nThe function could not be translated (outside the supported subset or stale contract); every obligation on it is undischarged.\n"), 0o644)
		violations = append(violations, fmt.Sprintf("VIOLATION property=%s replay=%s obligation=%s no-failing-input-found", *prop, p, name))
	}
	for _, e := range L.Errs {
		notes = append(notes, "contract/load error: "+e)
	}
	if len(L.Errs) > 0 {
		p := filepath.Join(replayDir, "contract-errors.txt")
		os.WriteFile(p, []byte(strings.Join(L.Errs, "\n")+"\n"), 0o644)
		relevant := false
		for _, e := range L.Errs {
			relevant = true
			_ = e
		}
		if relevant {
			violations = append(violations, fmt.Sprintf("VIOLATION property=%s replay=%s obligation=contracts-type-check no-failing-input-found", *prop, p))
			nObl++
		}
	}
	// thorough tier: the spec functions (and the trusted accept-key helper, and the DEFLATE
	// interoperability assumption) are evaluated on the RFCs' own examples by tag-guarded tests
	// in the repository. This validates specifications; it proves nothing about the code.
	specVal := map[string]interface{}{"ran": false}
	if pkgs := specVectorPkgs[*prop]; *tier == "thorough" && len(pkgs) > 0 {
		argv := append([]string{"test", "-mod=mod", "-tags", "verif", "-count=1", "-vet=off", "-timeout", "120s", "-run", "TestSpecVectors", "-v"}, pkgs...)
		cmd := exec.Command("go", argv...)
		cmd.Dir = *repo
		cmd.Env = append(os.Environ(), "GOFLAGS=-mod=mod", "GOPROXY=off", "GOSUMDB=off", "GOTOOLCHAIN=local")
		out, err := cmd.CombinedOutput()
		nPass := strings.Count(string(out), "--- PASS: TestSpecVectors")
		nFail := strings.Count(string(out), "--- FAIL: TestSpecVectors")
		specVal = map[string]interface{}{"ran": true, "cmd": "go " + strings.Join(argv, " "), "tests_passed": nPass, "tests_failed": nFail, "ok": err == nil && nPass > 0,
			"what": "RFC 6455 5.7/5.x/7.4/1.3, RFC 3629 boundary code points, RFC 7692 7.2.3 examples evaluated on the specification functions; not a proof"}
		if err != nil || nPass == 0 {
			p := filepath.Join(replayDir, "spec-validation.txt")
			os.WriteFile(p, append([]byte("obligation: spec-validation\nThe specification functions disagree with the RFC examples (or the vector tests did not run): the contracts cannot be trusted until this is resolved.\n\n"), out...), 0o644)
			violations = append(violations, fmt.Sprintf("VIOLATION property=%s replay=%s obligation=spec-validation no-failing-input-found", *prop, p))
			nObl++
		}
	}
	if nObl == 0 && len(violations) == 0 {
		p := filepath.Join(replayDir, "no-obligations.txt")
		os.WriteFile(p, []byte("no obligations were generated for "+*prop+" (broken check)\n"), 0o644)
		violations = append(violations, fmt.Sprintf("VIOLATION property=%s replay=%s obligation=none-generated no-failing-input-found", *prop, p))
	}
	for _, l := range knownLines {
		fmt.Println(l)
	}
	for _, v := range violations {
		fmt.Println(v)
	}
	if len(samples) > 60 {
		// keep evidence readable: all failures plus the first 60
		var keep []sample
		for _, s := range samples {
			if s.Status != "proved" && s.Status != "cover-ok" {
				keep = append(keep, s)
			}
		}
		for _, s := range samples {
			if len(keep) >= 60 {
				break
			}
			if s.Status == "proved" || s.Status == "cover-ok" {
				keep = append(keep, s)
			}
		}
		samples = keep
	}
	trusted := []string{
		"go/ssa (x/tools v0.29.0) and go/types translate the source faithfully",
		"govc SSA->SMT semantics (64-bit two's-complement bit-vectors, Go shift/division semantics)",
		"solvers z3 4.8.12, z3 5.1.0 (z3-new), cvc5 1.0.x",
	}
	assumptions := []string{
		"amd64: int is 64 bits; slice offsets/lengths/capacities of inputs are in [0, 2^48]",
		"sequential execution; no concurrent mutation of objects under contract",
		"package-level variables are immutable after initialisation; package-level error values are non-nil and pairwise distinct",
		"distinct allocation sites yield distinct references; parameters refer to memory allocated before the call",
		"machine integers are modelled exactly as fixed-width bit-vectors (wrap-around), never as mathematical integers; ghost stream positions and counters are assumed to stay in [0, 2^61]",
		"unsafe code: the word-sized loads/stores of ws.Cipher are modelled as little-endian accesses of the byte heap, strToBytes/btsToString as views of the same memory",
		"map lookups yield arbitrary well-formed values; user callbacks without a funcval contract and calls marked havoc may change every heap",
		"termination is proved only for loops with a decreases clause",
		"trusted (assumed) contracts: " + strings.Join(trustedContracts(L, *prop), ", "),
	}
	for _, n := range notes {
		assumptions = append(assumptions, n)
	}
	level := "proof"
	cov := map[string]interface{}{
		"obligations":   nObl,
		"discharged":    nDis,
		"checker_cmd":   fmt.Sprintf("/verif/bin/govc check -prop %s -tier %s (VCs from go/ssa of %s; solvers raced per obligation)", *prop, *tier, *repo),
		"trusted_base":  trusted,
		"samples":       samples,
		"functions_under_contract": funcs,
		"vacuity_guards": map[string]int{"cover_obligations": nCover, "satisfiable": nCoverOK},
		"spec_validation": specVal,
		"counterexample_replays": map[string]int{"attempted": nReplays, "reproduced_on_real_code": nReplayed},
		"solver_wins":   solverWins,
		"solver_seconds_total": solverTime,
		"unproved_not_claimed": unproved,
		"outside_subset": outside,
		"known_findings": knownLines,
		"integers":      "64-bit bit-vectors with wrap-around (not mathematical integers)",
		"evaluations":   nObl + nCover,
		"distinct_nontrivial": nObl + nCover,
		"rule":          "one SMT query per named obligation (pre/post/inv-init/inv-keep/dec/frame/safe-*/no-panic/lemma) generated from the current source; distinct by obligation name",
	}
	ev := map[string]interface{}{
		"property_id": *prop,
		"tier":        *tier,
		"seed":        seed,
		"level":       level,
		"coverage":    cov,
		"assumptions": assumptions,
		"wall_s":      time.Since(t0).Seconds(),
		"violations":  len(violations),
	}
	data, _ := json.MarshalIndent(ev, "", " ")
	os.WriteFile(evPath, data, 0o644)
	fmt.Printf("property=%s tier=%s obligations=%d discharged=%d cover=%d/%d known=%d violations=%d wall=%.1fs\n", *prop, *tier, nObl, nDis, nCoverOK, nCover, len(knownLines), len(violations), time.Since(t0).Seconds())
	if len(violations) > 0 {
		os.Exit(1)
	}
}

func trustedContracts(L *Loaded, prop string) []string {
	var out []string
	for _, c := range L.CS.Order {
		if c.IsIface || c.Trusted || c.External {
			out = append(out, c.Key)
		}
	}
	sort.Strings(out)
	if len(out) == 0 {
		return []string{"none"}
	}
	return out
}

// writeReplay records a failed obligation; the returned string is the VIOLATION line.
func writeReplay(dir, prop string, or *OblResult, note string) string {
	p := filepath.Join(dir, sanitize(or.O.Name)+".txt")
	var sb strings.Builder
	fmt.Fprintf(&sb, "obligation: %s\nkind: %s\nsolver: %s\nstatus: %s\n", or.O.Name, or.O.Kind, or.R.Solver, or.R.Status)
	if or.O.Pos.IsValid() {
		fmt.Fprintf(&sb, "position: %s\n", or.O.Pos)
	}
	if or.O.Clause != nil {
		fmt.Fprintf(&sb, "clause: %s\n", or.O.Clause.Text)
	}
	if note != "" {
		fmt.Fprintf(&sb, "note: %s\n", note)
	}
	fmt.Fprintf(&sb, "smt: %s\nsolver output:\n%s\n", or.File, or.R.Output)
	os.WriteFile(p, []byte(sb.String()), 0o644)
	suffix := ""
	if !or.Replayed {
		suffix = " no-failing-input-found"
	} else if or.ReplayFile != "" {
		// the replay is the generated test; the text file next to it carries the solver output
		p = or.ReplayFile
	}
	return fmt.Sprintf("VIOLATION property=%s replay=%s obligation=%s solver=%s%s", prop, p, or.O.Name, or.R.Status, suffix)
}


func clauseHasProp(c *Contract, id string) bool {
	for _, cl := range append(append([]*Clause{}, c.Requires...), c.Ensures...) {
		for _, p := range cl.Props {
			if p == id {
				return true
			}
		}
	}
	return false
}

// oblInProp decides whether an obligation counts for property id. Clause-tagged obligations count
// for their tags only; everything else (safety obligations included) counts for every property of
// the function.
func oblInProp(o *Obligation, c *Contract, id string) bool {
	if o.Clause != nil && len(o.Clause.Props) > 0 && (o.Kind == "post" || o.Kind == "lemma") {
		for _, p := range o.Clause.Props {
			if p == id {
				return true
			}
		}
		return false
	}
	if !hasProp(c, id) {
		return o.Kind == "cover"
	}
	// safety obligations (index, slice, nil, make, explicit panic) count for every property the
	// function lists: a call that panics does not deliver its postcondition either
	return true
}

package main

// Verification of one function against its contract: entry state, body, postconditions, frame.

import (
	"fmt"
	"os"
	"go/types"
	"strings"

	"golang.org/x/tools/go/ssa"
)

type FuncResult struct {
	Contract *Contract
	Name     string
	Obls     []*Obligation
	Facts    []*Term
	FactKind []string
	FactSeq  []int
	SupersededAt map[*Term]int
	Err      string // outside the subset / stale contract
	Notes    []string
	Parts    []*FuncResult // one per case combination (each with its own facts)
	Params   []*Term
	ParamNames []string
	ErrGlobals []*Term
	Runs     int
}

func (e *Engine) resolveFn(c *Contract) *ssa.Function {
	pkg := e.ssaPkgs[c.PkgPath]
	if pkg == nil {
		return nil
	}
	key := c.Key
	var closures []string
	for {
		j := strings.LastIndex(key, "$")
		if j < 0 {
			break
		}
		closures = append([]string{key[j:]}, closures...)
		key = key[:j]
	}
	var fn *ssa.Function
	if j := strings.Index(key, "."); j >= 0 {
		tn, mn := key[:j], key[j+1:]
		o := pkg.Pkg.Scope().Lookup(tn)
		if o == nil {
			return nil
		}
		for _, t := range []types.Type{o.Type(), types.NewPointer(o.Type())} {
			ms := e.prog.MethodSets.MethodSet(t)
			if sel := ms.Lookup(pkg.Pkg, mn); sel != nil {
				fn = e.prog.MethodValue(sel)
				if fn != nil && fn.Synthetic == "" {
					break
				}
			}
		}
		if fn != nil && fn.Synthetic != "" {
			// wrapper: find the declared method
			for _, t := range []types.Type{o.Type(), types.NewPointer(o.Type())} {
				ms := e.prog.MethodSets.MethodSet(t)
				if sel := ms.Lookup(pkg.Pkg, mn); sel != nil {
					if f := e.prog.FuncValue(sel.Obj().(*types.Func)); f != nil {
						fn = f
					}
				}
			}
		}
	} else {
		fn = pkg.Func(key)
	}
	if fn == nil {
		return nil
	}
	for _, cl := range closures {
		var found *ssa.Function
		for _, a := range fn.AnonFuncs {
			if strings.HasSuffix(a.Name(), cl) && strings.Count(a.Name(), "$") == strings.Count(fn.Name(), "$")+1 {
				found = a
			}
		}
		if found == nil {
			return nil
		}
		fn = found
	}
	return fn
}

// VerifyFunction generates all obligations for the function under contract c.
func (e *Engine) VerifyFunction(c *Contract) (res *FuncResult) {
	res = &FuncResult{Contract: c, Name: c.FullName()}
	defer func() {
		if r := recover(); r != nil {
			if u, ok := r.(*UnsupportedError); ok {
				res.Err = u.Msg
				res.Obls = nil
				return
			}
			panic(r)
		}
	}()
	if c.Stale != "" {
		res.Err = "stale contract (a clause no longer compiles against the code): " + c.Stale
		return
	}
	fn := e.resolveFn(c)
	if fn == nil {
		res.Err = "function not found (stale contract)"
		return
	}
	e.fnContract[fn] = c
	e.curFunc = c.FullName()
	e.curPkg = c.PkgPath
	e.havocCells = map[*ssa.BasicBlock]map[ssa.Value]bool{}
	e.havocHeaps = map[*ssa.BasicBlock]map[string]bool{}
	e.havocClock = map[*ssa.BasicBlock]bool{}
	// cross product of the case groups (proof hint); a single empty combination without cases
	combos := [][]int{{}}
	for _, cg := range c.Cases {
		var next [][]int
		for _, co := range combos {
			for i := range cg.Alts {
				next = append(next, append(append([]int{}, co...), i))
			}
		}
		combos = next
	}
	res.Parts = nil
	for _, co := range combos {
		e.caseCombo = co
		for run := 1; run <= 12; run++ {
			res.Runs = run
			e.resetRun()
			e.notes = nil
			e.errGlobals = nil
			func() {
				defer func() { e.tb.Known = nil; e.tb.Rewrite = nil }()
				e.runOnce(c, fn, res)
			}()
			if !e.restart {
				break
			}
			if run == 12 {
				unsupported("loop write-set discovery did not converge")
			}
		}
		suffix := ""
		for i, k := range co {
			suffix += fmt.Sprintf("@%s=%d", c.Cases[i].Name, k)
		}
		part := &FuncResult{Contract: c, Name: res.Name, Obls: e.obls, Facts: e.facts, FactKind: e.factKind, FactSeq: e.factSeq,
			SupersededAt: e.supersededAt, Notes: e.notes, ErrGlobals: e.errGlobals, Params: res.Params, ParamNames: res.ParamNames, Runs: res.Runs}
		for _, o := range part.Obls {
			o.Name += suffix
			o.Label += suffix
		}
		res.Parts = append(res.Parts, part)
		res.Obls = append(res.Obls, part.Obls...)
		res.Notes = append(res.Notes, e.notes...)
	}
	e.caseCombo = nil
	if len(res.Parts) == 1 {
		p := res.Parts[0]
		res.Facts, res.FactKind, res.FactSeq, res.SupersededAt, res.ErrGlobals = p.Facts, p.FactKind, p.FactSeq, p.SupersededAt, p.ErrGlobals
	}
	return res
}

func (e *Engine) runOnce(c *Contract, fn *ssa.Function, res *FuncResult) {
	tb := e.tb
	st := &State{cond: tb.True(), cells: map[*Cell]*Term{}, heaps: map[string]*Term{}, clock: tb.Const("clock0", SInt)}
	e.addGlobalFact(tb.IntCmp(">=", st.clock, tb.Int(0)))
	fr := e.newFrame(fn, nil)
	fr.contract = c
	res.Params = nil
	res.ParamNames = nil
	var args []Val
	for i, p := range fn.Params {
		name := "p_" + p.Name()
		var v Val
		switch u := p.Type().Underlying().(type) {
		case *types.Pointer:
			r := tb.Const(name, SRef)
			v = &PtrVal{Kind: KObj, Ref: r, Typ: u.Elem()}
			e.addGlobalFact(tb.IntCmp("<", tb.RootID(r), st.clock))
			e.addGlobalFact(tb.IntCmp(">=", tb.RootID(r), tb.Int(0)))
			tb.OldRefs[r] = true
			// the object a pointer parameter refers to is well formed at entry (one level deep)
			if _, isStruct := u.Elem().Underlying().(*types.Struct); isStruct {
				func() {
					defer func() { recover() }()
					e.assumeWF(fr, st, e.loadObj(st, r, u.Elem()), u.Elem())
				}()
			}
			if i == 0 && fn.Signature.Recv() != nil {
				e.addGlobalFact(tb.Not(tb.Eq(r, tb.RefNil())))
			}
			res.Params = append(res.Params, r)
		default:
			t := tb.Const(name, e.sortOf(p.Type()))
			v = e.asVal(t, p.Type())
			e.assumeWF(fr, st, t, p.Type())
			e.markOld(t, p.Type())
			if _, isI := p.Type().Underlying().(*types.Interface); isI && p.Type().String() != "error" {
				// interface-typed parameters (readers, writers, ...) are assumed non-nil
				e.addGlobalFact(tb.Not(tb.Eq(tb.Acc(t, 0), tb.Int(0))))
			}
			res.Params = append(res.Params, t)
		}
		res.ParamNames = append(res.ParamNames, p.Name())
		args = append(args, v)
	}
	e.bindParams(fr, args)
	for _, fv := range fn.FreeVars {
		pt, ok := fv.Type().Underlying().(*types.Pointer)
		if !ok {
			unsupported("free variable %s is not a pointer", fv.Name())
		}
		_, isArr := pt.Elem().Underlying().(*types.Array)
		_, isStruct := pt.Elem().Underlying().(*types.Struct)
		if isArr || isStruct {
			// a captured array or struct is sliced, indexed or used as a method receiver in place: it
			// lives on the heap
			r := tb.Const("fv_"+fv.Name(), SRef)
			e.addGlobalFact(tb.IntCmp("<", tb.RootID(r), st.clock))
			e.addGlobalFact(tb.IntCmp(">=", tb.RootID(r), tb.Int(0)))
			e.addGlobalFact(tb.Not(tb.Eq(r, tb.RefNil())))
			tb.OldRefs[r] = true
			pv := &PtrVal{Kind: KObj, Ref: r, Typ: pt.Elem()}
			fr.vals[fv] = pv
			fr.free[e.posKey(fv.Name(), fv.Pos())] = pv
			fr.params[e.posKey(fv.Name(), fv.Pos())] = pv
			if isStruct {
				ev := e.loadObj(st, r, pt.Elem())
				e.assumeWF(fr, st, ev, pt.Elem())
				fr.params[e.posKey(fv.Name(), fv.Pos())] = e.asVal(ev, pt.Elem())
			}
			res.Params = append(res.Params, r)
			res.ParamNames = append(res.ParamNames, "captured "+fv.Name())
			continue
		}
		cell := &Cell{name: fv.Name(), typ: pt.Elem(), key: fv}
		val := tb.Const("fv_"+fv.Name(), e.sortOf(pt.Elem()))
		st.cells[cell] = val
		e.assumeWF(fr, st, val, pt.Elem())
		pv := &PtrVal{Kind: KCell, Cell: cell, Typ: pt.Elem()}
		fr.vals[fv] = pv
		fr.free[e.posKey(fv.Name(), fv.Pos())] = pv
		fr.params[e.posKey(fv.Name(), fv.Pos())] = e.asVal(val, pt.Elem())
		res.Params = append(res.Params, val)
		res.ParamNames = append(res.ParamNames, "captured "+fv.Name())
	}
	entry := st.clone()
	fr.entry = entry
	known := map[*Term]bool{}
	var pendingNand []*Term
	for _, cl := range c.Requires {
		g := e.evalClause(fr, st, entry, cl, nil)
		e.addFact(st, g)
		// the atoms of a precondition talk about the entry state only: they hold throughout
		var atoms func(t *Term, pos bool)
		atoms = func(t *Term, pos bool) {
			if !t.IsLit() && t.Op != "forall" && t.Op != "not" {
				known[t] = pos
			}
			switch {
			case t.Op == "and" && pos:
				for _, a := range t.Args {
					atoms(a, true)
				}
			case t.Op == "or" && !pos:
				for _, a := range t.Args {
					atoms(a, false)
				}
			case t.Op == "not":
				atoms(t.Args[0], !pos)
			case t.Op == "and" && !pos:
				pendingNand = append(pendingNand, t)
			case t.Op == "=>" && pos:
				pendingNand = append(pendingNand, tb.And(t.Args[0], tb.Not(t.Args[1])))
			case t.IsLit() || t.Op == "forall" || t.Op == "=>":
			default:
				known[t] = pos
			}
		}
		atoms(g, true)
		// unit propagation over the negated conjunctions (they come from && chains in Go specs)
		var evalKnown func(t *Term, d int) (bool, bool)
		evalKnown = func(t *Term, d int) (bool, bool) {
			if t.IsTrue() {
				return true, true
			}
			if t.IsFalse() {
				return false, true
			}
			if v, ok := known[t]; ok {
				return v, true
			}
			if d > 8 {
				return false, false
			}
			switch t.Op {
			case "not":
				v, ok := evalKnown(t.Args[0], d+1)
				return !v, ok
			case "and":
				all := true
				for _, a := range t.Args {
					v, ok := evalKnown(a, d+1)
					if ok && !v {
						return false, true
					}
					if !ok {
						all = false
					}
				}
				return true, all
			case "or":
				all := true
				for _, a := range t.Args {
					v, ok := evalKnown(a, d+1)
					if ok && v {
						return true, true
					}
					if !ok {
						all = false
					}
				}
				return false, all
			case "=>":
				a, oka := evalKnown(t.Args[0], d+1)
				b, okb := evalKnown(t.Args[1], d+1)
				if oka && !a {
					return true, true
				}
				if okb && b {
					return true, true
				}
				if oka && okb {
					return !a || b, true
				}
			}
			return false, false
		}
		for changed := true; changed; {
			changed = false
			var rest []*Term
			for _, n := range pendingNand {
				var open []*Term
				sat := false
				for _, x := range n.Args {
					if v, ok := evalKnown(x, 0); ok {
						if !v {
							sat = true
						}
						continue
					}
					open = append(open, x)
				}
				if sat {
					continue
				}
				if len(open) == 1 {
					atoms(open[0], false)
					changed = true
					continue
				}
				rest = append(rest, n)
			}
			pendingNand = rest
		}
	}
	tb.Known = known
	// case assumptions (proof hint): exhaustiveness is an obligation, the chosen alternative is assumed
	if len(c.Cases) > 0 && len(e.caseCombo) == len(c.Cases) {
		for gi, cg := range c.Cases {
			var alts []*Term
			for _, alt := range cg.Alts {
				var conj []*Term
				for _, a := range alt {
					t := e.evalClause(fr, st, entry, a.Cl, nil)
					if a.Neg {
						t = tb.Not(t)
					}
					conj = append(conj, t)
				}
				alts = append(alts, tb.And(conj...))
			}
			first := true
			for _, k := range e.caseCombo[:gi] {
				if k != 0 {
					first = false
				}
			}
			if first && e.caseCombo[gi] == 0 {
				e.addObligation(fr, st, "cases", cg.Name+".exhaustive", tb.Or(alts...), nil)
			}
			for _, a := range cg.Alts[e.caseCombo[gi]] {
				t := e.evalClause(fr, st, entry, a.Cl, nil)
				if t.IsLit() {
					continue
				}
				if a.Neg {
					e.addFact(st, tb.Not(t))
				} else {
					e.addFact(st, t)
				}
				known[t] = !a.Neg
			}
		}
		tb.Known = known
	}
	// orient equalities of the precondition whose one side is a load path of the entry state
	rw := map[*Term]*Term{}
	isLoadPath := func(t *Term) bool {
		x := t
		for x.Op == "acc" {
			x = x.Args[0]
		}
		if x.Op != "select" || x.Args[0].Op != "const" || !strings.HasPrefix(x.Args[0].Name, "h0_") {
			return false
		}
		// whole loaded values are rewritten only for interface / pointer sorts (their representation is a constructor)
		return x != t || t.Sort == SIface || t.Sort == SRef
	}
	contains := func(t, x *Term) bool {
		found := false
		vis := map[*Term]bool{}
		var rec func(t *Term)
		rec = func(t *Term) {
			if found || vis[t] {
				return
			}
			vis[t] = true
			if t == x {
				found = true
				return
			}
			for _, a := range t.Args {
				rec(a)
			}
		}
		rec(t)
		return found
	}
	for t, v := range known {
		if !v || t.Op != "=" {
			continue
		}
		a, b := t.Args[0], t.Args[1]
		switch {
		case isLoadPath(a) && !contains(b, a) && !(isLoadPath(b) && b.id < a.id):
			rw[a] = b
		case isLoadPath(b) && !contains(a, b):
			rw[b] = a
		}
	}
	// resolve chains (a -> b, b -> c) conservatively: drop rules whose target contains another rule's source
	for src, dst := range rw {
		for other := range rw {
			if other != src && contains(dst, other) {
				delete(rw, src)
				break
			}
		}
	}
	tb.Rewrite = rw
	if os.Getenv("GOVC_DEBUG") != "" {
		for a, b := range rw {
			fmt.Fprintf(os.Stderr, "REWRITE %s -> %s\n", tb.Show(a), tb.Show(b))
		}
		for _, pn := range pendingNand {
			fmt.Fprintf(os.Stderr, "PENDING %s\n", tb.Show(pn))
		}
		for a, v := range known {
			if a.Op == "=" {
				fmt.Fprintf(os.Stderr, "KNOWN-EQ %v %s\n", v, tb.Show(a))
			}
		}
	}

	nreq := len(e.facts)
	_ = nreq
	results, out := e.runBody(fr, st)
	if e.restart {
		return
	}
	fr.entry = entry
	everything := false
	for _, a := range c.Assigns {
		if a.Kind == "everything" {
			everything = true
		}
	}
	if !out.dead {
		for _, cl := range c.Ensures {
			g := e.evalClauseAt(fr, out, entry, cl, results)
			e.addObligation(fr, out, "post", cl.Label, g, cl)
		}
		if e.havocAllMin >= 0 && len(e.heapSorts) > e.havocAllMin {
			// a heap was first touched after a havoc-everything: run again now that it is known
			e.restart = true
			return
		}
		if c.HasAssigns && !everything {
			var targets []*havocTarget
			for _, a := range c.Assigns {
				targets = append(targets, e.assignTargets(fr, entry, a, nil)...)
			}
			e.frameObligations(fr, out, entry, targets, "exit", entry.clock)
		}
	}
	// vacuity guard: the preconditions are satisfiable and some return is reachable
	cov := &Obligation{Name: e.curFunc + "/cover/return", Kind: "cover", Func: e.curFunc, Label: "return", Cond: out.cond, Goal: tb.False(), NFacts: len(e.facts), Cover: true}
	if out.dead {
		cov.Cond = tb.True()
		cov.Label = "pre"
		cov.Name = e.curFunc + "/cover/pre"
		cov.NFacts = nreq
	}
	e.obls = e.appendObl(cov)
}

// evalClauseAt evaluates a post clause: parameters denote entry values.
func (e *Engine) evalClauseAt(fr *Frame, st, old *State, cl *Clause, results []Val) *Term {
	return e.evalClause(fr, st, old, cl, results)
}

// VerifyLemma: lemma name(params): requires ... ensures ... over spec functions only.
func (e *Engine) VerifyLemma(c *Contract) (res *FuncResult) {
	res = &FuncResult{Contract: c, Name: c.FullName()}
	defer func() {
		if r := recover(); r != nil {
			if u, ok := r.(*UnsupportedError); ok {
				res.Err = u.Msg
				res.Obls = nil
				return
			}
			panic(r)
		}
	}()
	tb := e.tb
	e.curFunc = c.FullName()
	e.resetRun()
	e.notes = nil
	e.errGlobals = nil
	st := &State{cond: tb.True(), cells: map[*Cell]*Term{}, heaps: map[string]*Term{}, clock: tb.Const("clock0", SInt)}
	e.addGlobalFact(tb.IntCmp(">=", st.clock, tb.Int(0)))
	var args []Val
	var first *ssa.Function
	all := append(append([]*Clause{}, c.Requires...), c.Ensures...)
	if len(all) == 0 {
		res.Err = "empty lemma"
		return
	}
	first = e.wrapperFn(c, all[0])
	fr := e.newFrame(first, nil)
	fr.contract = c
	for _, p := range first.Params {
		name := "p_" + p.Name()
		switch u := p.Type().Underlying().(type) {
		case *types.Pointer:
			r := tb.Const(name, SRef)
			args = append(args, &PtrVal{Kind: KObj, Ref: r, Typ: u.Elem()})
			res.Params = append(res.Params, r)
		default:
			t := tb.Const(name, e.sortOf(p.Type()))
			args = append(args, e.asVal(t, p.Type()))
			e.assumeWF(fr, st, t, p.Type())
			res.Params = append(res.Params, t)
		}
		res.ParamNames = append(res.ParamNames, p.Name())
	}
	for _, cl := range c.Requires {
		g := e.evalWrapper(fr, st, st, e.wrapperFn(c, cl), args).(*Term)
		e.addFact(st, g)
	}
	for _, cl := range c.Ensures {
		g := e.evalWrapper(fr, st, st, e.wrapperFn(c, cl), args).(*Term)
		o := &Obligation{Name: e.curFunc + "/lemma/" + cl.Label, Kind: "lemma", Func: e.curFunc, Label: cl.Label, Cond: st.cond, Goal: g, NFacts: len(e.facts), Clause: cl, Unproved: cl.Unproved}
		e.obls = e.appendObl(o)
	}
	e.obls = e.appendObl(&Obligation{Name: e.curFunc + "/cover/pre", Kind: "cover", Func: e.curFunc, Label: "pre", Cond: tb.True(), Goal: tb.False(), NFacts: len(e.facts), Cover: true})
	res.Obls = e.obls
	res.Facts = e.facts
	res.FactKind = e.factKind
	res.FactSeq = e.factSeq
	res.SupersededAt = e.supersededAt
	res.ErrGlobals = e.errGlobals
	res.Runs = 1
	return res
}

// Query builds the assertion list of an obligation.
func (e *Engine) Query(r *FuncResult, o *Obligation) []*Term {
	tb := e.tb
	var as []*Term
	if len(r.ErrGlobals) > 1 {
		as = append(as, tb.Distinct(r.ErrGlobals...))
	}
	as = append(as, e.relevantFacts(r, o)...)
	as = append(as, o.Cond)
	if !o.Cover {
		as = append(as, tb.Not(e.skolemize(o.Goal)))
	}
	as = append(e.litFactsFor(as), as...)
	var out []*Term
	seen := map[*Term]bool{}
	for _, a := range as {
		if a.IsTrue() || seen[a] {
			continue
		}
		seen[a] = true
		out = append(out, a)
	}
	return out
}

func (o *Obligation) String() string { return fmt.Sprintf("%s", o.Name) }


// markOld records the reference parts of a parameter value as predating the run.
func (e *Engine) markOld(t *Term, typ types.Type) {
	tb := e.tb
	switch u := typ.Underlying().(type) {
	case *types.Slice:
		tb.OldRefs[e.sBase(t)] = true
	case *types.Basic:
		if t.Sort == SStr {
			tb.OldRefs[tb.Acc(t, 0)] = true
		}
	case *types.Interface:
		tb.OldRefs[tb.Acc(t, 1)] = true
	case *types.Pointer:
		tb.OldRefs[t] = true
	case *types.Struct:
		for i := 0; i < u.NumFields(); i++ {
			e.markOld(tb.Acc(t, i), u.Field(i).Type())
		}
	}
}


// relevantFacts drops quantified content facts about region versions that were superseded (re-havocked)
// before the obligation was generated and that are not live for it: a version is live if it occurs in
// the goal or path condition, or is connected to them through quantifier-free facts (ignoring the
// hub symbols: parameters, initial heaps, the clock). The frame facts linking versions are always
// kept. Dropping assumptions is sound; it can only make a proof fail, never succeed wrongly.
func (e *Engine) relevantFacts(r *FuncResult, o *Obligation) []*Term {
	if len(r.SupersededAt) == 0 {
		return r.Facts[:o.NFacts]
	}
	isHub := func(t *Term) bool {
		n := t.Name
		return strings.HasPrefix(n, "p_") || strings.HasPrefix(n, "h0_") || n == "clock0" || strings.HasPrefix(n, "G_") || strings.HasPrefix(n, "fn_")
	}
	constsOf := func(t *Term, into map[*Term]bool) {
		vis := map[*Term]bool{}
		var rec func(t *Term)
		rec = func(t *Term) {
			if vis[t] {
				return
			}
			vis[t] = true
			if t.Op == "const" {
				if !isHub(t) {
					into[t] = true
				}
				return
			}
			for _, a := range t.Args {
				rec(a)
			}
		}
		rec(t)
	}
	live := map[*Term]bool{}
	constsOf(o.Cond, live)
	constsOf(o.Goal, live)
	factConsts := make([]map[*Term]bool, o.NFacts)
	for i, f := range r.Facts[:o.NFacts] {
		if i < len(r.FactKind) && r.FactKind[i] == "hframe" {
			continue // frame links relate versions only outside the written range: they do not keep a version live
		}
		factConsts[i] = map[*Term]bool{}
		constsOf(f, factConsts[i])
	}
	for changed := true; changed; {
		changed = false
		for i := range factConsts {
			fc := factConsts[i]
			if fc == nil {
				continue
			}
			hit := false
			for c := range fc {
				if live[c] {
					hit = true
					break
				}
			}
			if hit {
				for c := range fc {
					if !live[c] {
						live[c] = true
						changed = true
					}
				}
				factConsts[i] = nil
			}
		}
	}
	var out []*Term
	for i, f := range r.Facts[:o.NFacts] {
		if i < len(r.FactKind) && r.FactKind[i] != "hframe" && hasQuant(f) {
			drop := false
			cs := map[*Term]bool{}
			constsOf(f, cs)
			for c := range cs {
				if at, ok := r.SupersededAt[c]; ok && at > r.FactSeq[i] && at < o.Seq && !live[c] {
					drop = true
				}
			}
			if drop {
				continue
			}
		}
		out = append(out, f)
	}
	return out
}

package main

// Counterexample replay: for a failed postcondition or safety obligation of a function whose
// parameters are plain data (scalars, byte arrays, byte slices, strings, structs of those,
// pointers to such structs), the solver is asked for a small model, the model is turned into an
// in-package Go test that calls the REAL function with those inputs and then evaluates the
// violated clause (the clause is a Go expression; the specification functions it uses are the
// executable ones of zz_contracts_verif.go). The test is injected with `go test -overlay`, nothing
// is written to the repository. A failing test is a replayed counterexample.

import (
	"bytes"
	"context"
	"fmt"
	"go/ast"
	"go/parser"
	"go/printer"
	"go/token"
	"go/types"
	"math/big"
	"os"
	"os/exec"
	"path/filepath"
	"sort"
	"strings"
	"time"

	"golang.org/x/tools/go/ssa"
)

const replayMaxLen = 48

// pval is a probed value: a tree mirroring the Go type, with solver terms at the leaves.
type pval struct {
	typ    types.Type
	kind   string // scalar bytes string array struct ptr
	leaf   *Term  // scalar
	isNil  *Term  // bytes/ptr: bool term "is nil"
	length *Term  // bytes/string
	elems  []*pval
	fields []*pval
	// filled from the model
	val    *big.Int
	bval   bool
	isBool bool
}

type replayer struct {
	e      *Engine
	st     *State
	leaves []*pval // scalar leaves in order
	terms  []*Term
	extra  []*Term // small-model constraints
	pkg    *types.Package
	imports map[string]string
	err    string
	streams bool
}

func (r *replayer) addLeaf(p *pval, t *Term) {
	p.leaf = t
	r.leaves = append(r.leaves, p)
	r.terms = append(r.terms, t)
}

func (r *replayer) boolLeaf(t *Term) *pval {
	p := &pval{kind: "scalar", isBool: true, typ: types.Typ[types.Bool]}
	r.addLeaf(p, t)
	return p
}

func (r *replayer) probe(t *Term, typ types.Type, depth int) *pval {
	e, tb := r.e, r.e.tb
	if depth > 4 {
		r.err = "type too deep"
		return nil
	}
	switch u := typ.Underlying().(type) {
	case *types.Basic:
		switch {
		case u.Info()&types.IsBoolean != 0:
			p := &pval{typ: typ, kind: "scalar", isBool: true}
			r.addLeaf(p, t)
			return p
		case u.Info()&types.IsInteger != 0:
			p := &pval{typ: typ, kind: "scalar"}
			r.addLeaf(p, t)
			return p
		case u.Info()&types.IsString != 0:
			p := &pval{typ: typ, kind: "string"}
			n := tb.Acc(t, 2)
			p.length = n
			lp := &pval{kind: "scalar", typ: types.Typ[types.Int]}
			r.addLeaf(lp, n)
			p.fields = []*pval{lp}
			r.extra = append(r.extra, tb.BVCmp("bvsle", n, tb.BV(replayMaxLen, 64)))
			for i := 0; i < replayMaxLen; i++ {
				bp := &pval{kind: "scalar", typ: types.Typ[types.Uint8]}
				r.addLeaf(bp, e.strByte(r.st, t, tb.BV(int64(i), 64)))
				p.elems = append(p.elems, bp)
			}
			return p
		}
	case *types.Slice:
		if !isByteSlice(typ) {
			r.err = "slice of non-bytes"
			return nil
		}
		p := &pval{typ: typ, kind: "bytes"}
		n := e.sLen(t)
		lp := &pval{kind: "scalar", typ: types.Typ[types.Int]}
		r.addLeaf(lp, n)
		np := r.boolLeaf(tb.Eq(e.sBase(t), tb.RefNil()))
		p.fields = []*pval{lp, np}
		r.extra = append(r.extra, tb.BVCmp("bvsle", n, tb.BV(replayMaxLen, 64)))
		reg := e.region(r.st, SBV8, e.sBase(t))
		for i := 0; i < replayMaxLen; i++ {
			bp := &pval{kind: "scalar", typ: types.Typ[types.Uint8]}
			r.addLeaf(bp, tb.Select(reg, tb.BVBin("bvadd", e.sOff(t), tb.BV(int64(i), 64))))
			p.elems = append(p.elems, bp)
		}
		return p
	case *types.Array:
		if u.Len() > 64 {
			r.err = "array too long"
			return nil
		}
		p := &pval{typ: typ, kind: "array"}
		es := e.sortOf(u.Elem())
		for i := int64(0); i < u.Len(); i++ {
			el := r.probe(tb.mk("select", es, "", nil, t, tb.BV(i, 64)), u.Elem(), depth+1)
			if el == nil {
				return nil
			}
			p.elems = append(p.elems, el)
		}
		return p
	case *types.Struct:
		p := &pval{typ: typ, kind: "struct"}
		for i := 0; i < u.NumFields(); i++ {
			f := u.Field(i)
			if !f.Exported() && f.Pkg() != r.pkg {
				r.err = "unexported field of another package"
				return nil
			}
			fp := r.probe(tb.Acc(t, i), f.Type(), depth+1)
			if fp == nil {
				return nil
			}
			p.fields = append(p.fields, fp)
		}
		return p
	case *types.Interface:
		if types.Identical(typ, types.Universe.Lookup("error").Type()) {
			// an error value: nil, io.EOF or some other error
			p := &pval{typ: typ, kind: "error"}
			np := r.boolLeaf(tb.Eq(tb.Acc(t, 0), tb.Int(0)))
			isEOF := tb.False()
			if g := e.ioEOF(r.st); g != nil {
				isEOF = tb.Eq(t, g)
			}
			p.fields = []*pval{np, r.boolLeaf(isEOF)}
			return p
		}
		if !streamLike(u) {
			r.err = "interface parameter that is not a plain reader/writer: " + typ.String()
			return nil
		}
		r.streams = true
		p := &pval{typ: typ, kind: "stream"}
		ref := tb.Acc(t, 1)
		np := r.boolLeaf(tb.Eq(tb.Acc(t, 0), tb.Int(0)))
		leaf := func(x *Term) *pval {
			lp := &pval{kind: "scalar", typ: types.Typ[types.Int]}
			r.addLeaf(lp, x)
			return lp
		}
		tb.DeclareUF("in_end", "(Ref) (_ BitVec 64)")
		tb.DeclareUF("in_data", "(Ref) "+string(SBytes))
		tb.DeclareUF("in_err", "(Ref) Iface")
		inPos := tb.Select(e.streamHeap(r.st, "in_pos"), ref)
		inEnd := tb.App("in_end", SBV64, ref)
		outLen := tb.Select(e.streamHeap(r.st, "out_len"), ref)
		outCalls := tb.Select(e.streamHeap(r.st, "out_calls"), ref)
		isEOF := tb.False()
		if g := e.ioEOF(r.st); g != nil {
			isEOF = tb.Eq(tb.App("in_err", SIface, ref), g)
		}
		p.fields = []*pval{np, leaf(inPos), leaf(inEnd), leaf(outLen), leaf(outCalls), r.boolLeaf(isEOF)}
		for _, x := range []*Term{inPos, inEnd, outLen, outCalls} {
			r.extra = append(r.extra, tb.BVCmp("bvsle", tb.BV(0, 64), x), tb.BVCmp("bvsle", x, tb.BV(replayMaxLen, 64)))
		}
		r.extra = append(r.extra, tb.BVCmp("bvsle", inPos, inEnd))
		ind := tb.App("in_data", SBytes, ref)
		outd := tb.Select(e.streamHeap(r.st, "out_data"), ref)
		for i := 0; i < replayMaxLen; i++ {
			bp := &pval{kind: "scalar", typ: types.Typ[types.Uint8]}
			r.addLeaf(bp, tb.Select(ind, tb.BV(int64(i), 64)))
			p.elems = append(p.elems, bp)
		}
		for i := 0; i < replayMaxLen; i++ {
			bp := &pval{kind: "scalar", typ: types.Typ[types.Uint8]}
			r.addLeaf(bp, tb.Select(outd, tb.BV(int64(i), 64)))
			p.elems = append(p.elems, bp)
		}
		return p
	case *types.Pointer:
		if _, ok := u.Elem().Underlying().(*types.Struct); !ok {
			r.err = "pointer to non-struct"
			return nil
		}
		p := &pval{typ: typ, kind: "ptr"}
		np := r.boolLeaf(tb.Eq(t, tb.RefNil()))
		obj := e.loadObj(r.st, t, u.Elem())
		op := r.probe(obj, u.Elem(), depth+1)
		if op == nil {
			return nil
		}
		p.fields = []*pval{np, op}
		return p
	}
	r.err = "unsupported parameter type " + typ.String()
	return nil
}

func (r *replayer) typeStr(t types.Type) string {
	return types.TypeString(t, func(p *types.Package) string {
		if p == r.pkg {
			return ""
		}
		r.imports[p.Path()] = p.Name()
		return p.Name()
	})
}

func signedVal(v *big.Int, t types.Type) string {
	b, ok := t.Underlying().(*types.Basic)
	if !ok {
		return v.String()
	}
	w := intWidth(b)
	if b.Info()&types.IsUnsigned == 0 && w > 0 && v.Bit(w-1) == 1 {
		x := new(big.Int).Sub(v, new(big.Int).Lsh(big.NewInt(1), uint(w)))
		return x.String()
	}
	return v.String()
}

// goLit renders the probed value as a Go expression.
func (r *replayer) goLit(p *pval) string {
	switch p.kind {
	case "scalar":
		if p.isBool {
			if _, named := p.typ.(*types.Named); named {
				return fmt.Sprintf("%s(%v)", r.typeStr(p.typ), p.bval)
			}
			return fmt.Sprint(p.bval)
		}
		return fmt.Sprintf("%s(%s)", r.typeStr(p.typ), signedVal(p.val, p.typ))
	case "string":
		n := int(p.fields[0].val.Int64())
		var b []byte
		for i := 0; i < n && i < len(p.elems); i++ {
			b = append(b, byte(p.elems[i].val.Int64()))
		}
		return fmt.Sprintf("%s(%q)", r.typeStr(p.typ), string(b))
	case "bytes":
		n := int(p.fields[0].val.Int64())
		if p.fields[1].bval && n == 0 {
			return fmt.Sprintf("%s(nil)", r.typeStr(p.typ))
		}
		var parts []string
		for i := 0; i < n && i < len(p.elems); i++ {
			parts = append(parts, fmt.Sprintf("0x%02x", p.elems[i].val.Int64()))
		}
		return fmt.Sprintf("%s{%s}", r.typeStr(p.typ), strings.Join(parts, ", "))
	case "array":
		var parts []string
		for _, el := range p.elems {
			parts = append(parts, r.goLit(el))
		}
		return fmt.Sprintf("%s{%s}", r.typeStr(p.typ), strings.Join(parts, ", "))
	case "struct":
		st := p.typ.Underlying().(*types.Struct)
		var parts []string
		for i, f := range p.fields {
			parts = append(parts, fmt.Sprintf("%s: %s", st.Field(i).Name(), r.goLit(f)))
		}
		return fmt.Sprintf("%s{%s}", r.typeStr(p.typ), strings.Join(parts, ", "))
	case "error":
		switch {
		case p.fields[0].bval:
			return "error(nil)"
		case p.fields[1].bval:
			r.imports["io"] = "io"
			return "error(io.EOF)"
		}
		return "error(errGhostTransport)"
	case "stream":
		if p.fields[0].bval {
			return "nil"
		}
		pos, end, olen, calls := int(p.fields[1].val.Int64()), int(p.fields[2].val.Int64()), int(p.fields[3].val.Int64()), int(p.fields[4].val.Int64())
		var in, out []string
		for i := 0; i < end && i < replayMaxLen; i++ {
			in = append(in, fmt.Sprintf("0x%02x", p.elems[i].val.Int64()))
		}
		for i := 0; i < olen && i < replayMaxLen; i++ {
			out = append(out, fmt.Sprintf("0x%02x", p.elems[replayMaxLen+i].val.Int64()))
		}
		errv := "errGhostTransport"
		if p.fields[5].bval {
			r.imports["io"] = "io"
			errv = "io.EOF"
		}
		return fmt.Sprintf("&ghostStream{in: []byte{%s}, pos: %d, err: %s, out: []byte{%s}, calls: %d}", strings.Join(in, ", "), pos, errv, strings.Join(out, ", "), calls)
	case "ptr":
		if p.fields[0].bval {
			return fmt.Sprintf("(%s)(nil)", r.typeStr(p.typ))
		}
		return "&" + r.goLit(p.fields[1])
	}
	return "nil"
}

// ---- s-expression reading of (get-value ...) answers

type sexp struct {
	atom string
	list []*sexp
}

func parseSexps(s string) []*sexp {
	var stack [][]*sexp
	cur := []*sexp{}
	i := 0
	for i < len(s) {
		c := s[i]
		switch {
		case c == '(':
			stack = append(stack, cur)
			cur = []*sexp{}
			i++
		case c == ')':
			if len(stack) == 0 {
				return cur
			}
			l := &sexp{list: cur}
			cur = append(stack[len(stack)-1], l)
			stack = stack[:len(stack)-1]
			i++
		case c == ' ' || c == '\n' || c == '\t' || c == '\r':
			i++
		case c == '|':
			j := strings.IndexByte(s[i+1:], '|')
			if j < 0 {
				return cur
			}
			cur = append(cur, &sexp{atom: s[i : i+j+2]})
			i += j + 2
		case c == '"':
			j := strings.IndexByte(s[i+1:], '"')
			if j < 0 {
				return cur
			}
			cur = append(cur, &sexp{atom: s[i : i+j+2]})
			i += j + 2
		default:
			j := i
			for j < len(s) && !strings.ContainsRune("() \n\t\r", rune(s[j])) {
				j++
			}
			cur = append(cur, &sexp{atom: s[i:j]})
			i = j
		}
	}
	return cur
}

func sexpValue(x *sexp) (v *big.Int, b bool, isBool bool, ok bool) {
	if x.list == nil {
		a := x.atom
		switch {
		case a == "true":
			return nil, true, true, true
		case a == "false":
			return nil, false, true, true
		case strings.HasPrefix(a, "#x"):
			n, ok := new(big.Int).SetString(a[2:], 16)
			return n, false, false, ok
		case strings.HasPrefix(a, "#b"):
			n, ok := new(big.Int).SetString(a[2:], 2)
			return n, false, false, ok
		default:
			n, ok := new(big.Int).SetString(a, 10)
			return n, false, false, ok
		}
	}
	if len(x.list) == 2 && x.list[0].atom == "-" {
		n, _, _, ok := sexpValue(x.list[1])
		if ok && n != nil {
			return new(big.Int).Neg(n), false, false, true
		}
	}
	if len(x.list) == 3 && x.list[0].atom == "_" && strings.HasPrefix(x.list[1].atom, "bv") {
		n, ok := new(big.Int).SetString(x.list[1].atom[2:], 10)
		return n, false, false, ok
	}
	return nil, false, false, false
}

// ---- clause rewriting: old(E) -> E over the saved copies

func rewriteOldForReplay(text string, params map[string]bool) (string, error) {
	expr, err := parser.ParseExpr(rewriteImplies(text))
	if err != nil {
		return "", err
	}
	var walk func(n ast.Node, inOld bool) ast.Node
	walkExpr := func(e ast.Expr, inOld bool) ast.Expr {
		if e == nil {
			return nil
		}
		return walk(e, inOld).(ast.Expr)
	}
	walk = func(n ast.Node, inOld bool) ast.Node {
		switch x := n.(type) {
		case *ast.Ident:
			if inOld && params[x.Name] {
				return &ast.Ident{Name: "old_" + x.Name}
			}
			return x
		case *ast.CallExpr:
			if id, ok := x.Fun.(*ast.Ident); ok && id.Name == "old" && len(x.Args) == 1 {
				return &ast.ParenExpr{X: walkExpr(x.Args[0], true)}
			}
			c := *x
			c.Fun = walkExpr(x.Fun, inOld)
			c.Args = nil
			for _, a := range x.Args {
				c.Args = append(c.Args, walkExpr(a, inOld))
			}
			return &c
		case *ast.BinaryExpr:
			c := *x
			c.X, c.Y = walkExpr(x.X, inOld), walkExpr(x.Y, inOld)
			return &c
		case *ast.UnaryExpr:
			c := *x
			c.X = walkExpr(x.X, inOld)
			return &c
		case *ast.ParenExpr:
			c := *x
			c.X = walkExpr(x.X, inOld)
			return &c
		case *ast.SelectorExpr:
			c := *x
			c.X = walkExpr(x.X, inOld)
			return &c
		case *ast.IndexExpr:
			c := *x
			c.X, c.Index = walkExpr(x.X, inOld), walkExpr(x.Index, inOld)
			return &c
		case *ast.SliceExpr:
			c := *x
			c.X, c.Low, c.High, c.Max = walkExpr(x.X, inOld), walkExpr(x.Low, inOld), walkExpr(x.High, inOld), walkExpr(x.Max, inOld)
			return &c
		case *ast.StarExpr:
			c := *x
			c.X = walkExpr(x.X, inOld)
			return &c
		case *ast.TypeAssertExpr:
			c := *x
			c.X = walkExpr(x.X, inOld)
			return &c
		case *ast.CompositeLit:
			c := *x
			c.Elts = nil
			for _, el := range x.Elts {
				c.Elts = append(c.Elts, walkExpr(el, inOld))
			}
			return &c
		case *ast.KeyValueExpr:
			c := *x
			c.Value = walkExpr(x.Value, inOld)
			return &c
		case *ast.FuncLit:
			// bound variables shadow parameters of the same name
			shadow := map[string]bool{}
			for _, f := range x.Type.Params.List {
				for _, nme := range f.Names {
					if params[nme.Name] {
						shadow[nme.Name] = true
						delete(params, nme.Name)
					}
				}
			}
			c := *x
			body := *x.Body
			body.List = nil
			for _, s := range x.Body.List {
				if rs, ok := s.(*ast.ReturnStmt); ok {
					nr := *rs
					nr.Results = nil
					for _, re := range rs.Results {
						nr.Results = append(nr.Results, walkExpr(re, inOld))
					}
					body.List = append(body.List, &nr)
				} else {
					body.List = append(body.List, s)
				}
			}
			c.Body = &body
			for k := range shadow {
				params[k] = true
			}
			return &c
		}
		return n
	}
	out := walkExpr(expr, false)
	var buf bytes.Buffer
	if err := printer.Fprint(&buf, token.NewFileSet(), out); err != nil {
		return "", err
	}
	return buf.String(), nil
}

// ---- the replay itself

type replayOutcome struct {
	TestFile  string
	Confirmed bool
	Note      string
}

func replayableKind(k string) bool {
	return k == "post" || strings.HasPrefix(k, "safe-") || k == "no-panic" || intermediateKind(k)
}

// intermediateKind: obligations inside the function (loop invariants, call-site preconditions,
// frames, termination measures). Their model is an input that reaches the violation; the replay
// runs the real function on it and evaluates every postcondition of the contract.
func intermediateKind(k string) bool {
	return k == "inv-init" || k == "inv-keep" || k == "pre" || k == "frame" || k == "dec" || k == "unwind"
}

func (e *Engine) tryReplay(or *OblResult, part *FuncResult, repo, dir string) *replayOutcome {
	out := &replayOutcome{}
	defer func() {
		if r := recover(); r != nil {
			out.Note = fmt.Sprintf("replay generator gave up: %v", r)
			out.Confirmed = false
		}
	}()
	c := or.C
	if c == nil || c.IsIface || c.Lemma || c.External || part == nil || !replayableKind(or.O.Kind) {
		out.Note = "obligation kind not replayable (intermediate obligation, interface or lemma)"
		return out
	}
	fn := e.resolveFn(c)
	if fn == nil || fn.Parent() != nil || fn.Pkg == nil {
		out.Note = "function not replayable (closure or missing)"
		return out
	}
	if intermediateKind(or.O.Kind) && len(c.Ensures) == 0 {
		out.Note = "intermediate obligation of a function without postconditions"
		return out
	}
	if or.O.Kind == "post" && (or.O.Clause == nil || or.O.Clause.Text == "") {
		out.Note = "no clause text"
		return out
	}
	tb := e.tb
	r := &replayer{e: e, pkg: fn.Pkg.Pkg, imports: map[string]string{},
		st: &State{cond: tb.True(), cells: map[*Cell]*Term{}, heaps: map[string]*Term{}, clock: tb.Const("clock0", SInt)}}
	if len(part.Params) < len(fn.Params) {
		out.Note = "parameter terms missing"
		return out
	}
	var pvs []*pval
	for i, p := range fn.Params {
		pv := r.probe(part.Params[i], p.Type(), 0)
		if pv == nil {
			out.Note = "inputs are not plain data: " + r.err
			return out
		}
		pvs = append(pvs, pv)
	}
	// ask for a small model
	q := e.Query(part, or.O)
	q = append(q, r.extra...)
	script := tb.Script(q, r.terms, false)
	os.MkdirAll(dir, 0o755)
	base := filepath.Join(dir, sanitize(or.O.Name))
	os.WriteFile(base+".model.smt2", []byte(script), 0o644)
	ctx, cancel := context.WithTimeout(context.Background(), 25*time.Second)
	defer cancel()
	cmd := exec.CommandContext(ctx, "z3-new", "-T:20", base+".model.smt2")
	var buf bytes.Buffer
	cmd.Stdout = &buf
	cmd.Stderr = &buf
	cmd.Run()
	ans := buf.String()
	if !strings.HasPrefix(strings.TrimSpace(ans), "sat") {
		out.Note = "no small model (inputs of at most " + fmt.Sprint(replayMaxLen) + " bytes) within 20 s: " + strings.SplitN(strings.TrimSpace(ans), "\n", 2)[0]
		return out
	}
	sx := parseSexps(ans[strings.Index(ans, "sat")+3:])
	if len(sx) == 0 || len(sx[0].list) != len(r.leaves) {
		out.Note = fmt.Sprintf("could not read the model (%d values for %d probes)", func() int {
			if len(sx) == 0 {
				return 0
			}
			return len(sx[0].list)
		}(), len(r.leaves))
		return out
	}
	for i, pair := range sx[0].list {
		if len(pair.list) != 2 {
			out.Note = "could not read the model"
			return out
		}
		v, b, isB, ok := sexpValue(pair.list[1])
		if !ok {
			out.Note = "model value not understood: " + pair.list[1].atom
			return out
		}
		lf := r.leaves[i]
		if isB {
			lf.bval = b
		} else {
			lf.val = v
			if lf.isBool {
				lf.bval = v.Sign() != 0
			}
		}
		if !isB && lf.val == nil {
			lf.val = big.NewInt(0)
		}
	}
	// the test
	var body strings.Builder
	names := map[string]bool{}
	var argNames []string
	for i, p := range fn.Params {
		n := p.Name()
		if n == "" || n == "_" {
			n = fmt.Sprintf("arg%d", i)
		}
		names[n] = true
		argNames = append(argNames, n)
		if pvs[i].kind == "stream" {
			fmt.Fprintf(&body, "\tvar %s %s = %s\n", n, r.typeStr(p.Type()), r.goLit(pvs[i]))
		} else {
			fmt.Fprintf(&body, "\t%s := %s\n", n, r.goLit(pvs[i]))
		}
		// saved copy for old(...)
		switch pvs[i].kind {
		case "bytes":
			fmt.Fprintf(&body, "\told_%s := %s\n\tif old_%s != nil {\n\t\told_%s = append(%s{}, %s...)\n\t}\n", n, n, n, n, r.typeStr(p.Type()), n)
		case "stream":
			fmt.Fprintf(&body, "\tvar old_%s %s = cloneGhost(%s)\n", n, r.typeStr(p.Type()), n)
		case "ptr":
			fmt.Fprintf(&body, "\told_%s := %s\n\tif %s != nil {\n\t\ttmp_%s := *%s\n\t\told_%s = &tmp_%s\n", n, n, n, n, n, n, n)
			// streams and byte slices reachable through the object are copied too
			if st, ok := pvs[i].fields[1].typ.Underlying().(*types.Struct); ok {
				for fi, fp := range pvs[i].fields[1].fields {
					fname := st.Field(fi).Name()
					switch fp.kind {
					case "stream":
						fmt.Fprintf(&body, "\t\tif g := cloneGhost(%s.%s); g != nil {\n\t\t\told_%s.%s = g\n\t\t}\n", n, fname, n, fname)
					case "bytes":
						fmt.Fprintf(&body, "\t\tif %s.%s != nil {\n\t\t\told_%s.%s = append(%s{}, %s.%s...)\n\t\t}\n", n, fname, n, fname, r.typeStr(fp.typ), n, fname)
					}
				}
			}
			body.WriteString("\t}\n")
		default:
			fmt.Fprintf(&body, "\told_%s := %s\n", n, n)
		}
		fmt.Fprintf(&body, "\t_, _ = %s, old_%s\n", n, n)
	}
	// the reconstructed inputs must satisfy the preconditions (reconstruction loses aliasing
	// between inputs; a clause that cannot be executed is taken on trust)
	{
		pm := map[string]bool{}
		for _, n := range argNames {
			pm[n] = true
		}
		for _, rc := range c.Requires {
			cl, err := rewriteOldForReplay(rc.Text, pm)
			if err != nil {
				continue
			}
			body.WriteString("\t{\n\t\tholds := true\n\t\tfunc() {\n\t\t\tdefer func() { recover() }()\n")
			fmt.Fprintf(&body, "\t\t\tholds = %s\n\t\t}()\n", cl)
			fmt.Fprintf(&body, "\t\tif !holds {\n\t\t\tt.Skipf(\"REPLAY-PRECONDITION: the reconstructed inputs do not satisfy requires [%s]\")\n\t\t}\n\t}\n", rc.Label)
		}
	}
	sig := fn.Signature
	var resNames, resDecl []string
	for i := 0; i < sig.Results().Len(); i++ {
		rn := fmt.Sprintf("r%d", i)
		resNames = append(resNames, rn)
		resDecl = append(resDecl, fmt.Sprintf("\tvar %s %s\n", rn, r.typeStr(sig.Results().At(i).Type())))
	}
	call := ""
	args := argNames
	if sig.Recv() != nil {
		call = fmt.Sprintf("%s.%s(%s)", argNames[0], fn.Name(), strings.Join(args[1:], ", "))
	} else {
		call = fmt.Sprintf("%s(%s)", fn.Name(), strings.Join(args, ", "))
	}
	body.WriteString(strings.Join(resDecl, ""))
	body.WriteString("\tvar panicked interface{}\n\tfunc() {\n\t\tdefer func() { panicked = recover() }()\n")
	if len(resNames) > 0 {
		fmt.Fprintf(&body, "\t\t%s = %s\n", strings.Join(resNames, ", "), call)
	} else {
		fmt.Fprintf(&body, "\t\t%s\n", call)
	}
	body.WriteString("\t}()\n")
	fmt.Fprintf(&body, "\tif panicked != nil {\n\t\tt.Fatalf(\"REPLAY-CONFIRMED %s: the call panics: %%v\", panicked)\n\t}\n", or.O.Name)
	if or.O.Kind == "post" || intermediateKind(or.O.Kind) {
		for i := 0; i < sig.Results().Len(); i++ {
			als := []string{fmt.Sprintf("result%d", i)}
			if sig.Results().Len() == 1 {
				als = append(als, "result")
			}
			if n := sig.Results().At(i).Name(); n != "" && n != "_" {
				als = append(als, n)
			}
			for _, a := range als {
				if names[a] {
					continue
				}
				names[a] = true
				fmt.Fprintf(&body, "\t%s := r%d\n\t_ = %s\n", a, i, a)
			}
		}
		pm := map[string]bool{}
		for _, n := range argNames {
			pm[n] = true
		}
		clauses := []*Clause{or.O.Clause}
		if intermediateKind(or.O.Kind) {
			clauses = c.Ensures
		}
		body.WriteString("\tnotExecutable := 0\n")
		for _, pc := range clauses {
			if pc == nil || pc.Unproved != "" {
				continue
			}
			cl, err := rewriteOldForReplay(pc.Text, pm)
			if err != nil {
				if !intermediateKind(or.O.Kind) {
					out.Note = "clause could not be rewritten: " + err.Error()
					return out
				}
				continue
			}
			body.WriteString("\t{\n\t\tholds, ran := true, false\n\t\tfunc() {\n\t\t\tdefer func() { recover() }()\n")
			fmt.Fprintf(&body, "\t\t\tholds = %s\n\t\t\tran = true\n\t\t}()\n", cl)
			fmt.Fprintf(&body, "\t\tif !ran {\n\t\t\tnotExecutable++\n\t\t} else if !holds {\n\t\t\tt.Fatalf(\"REPLAY-CONFIRMED %s: clause [%s] is false on the real code for these inputs\")\n\t\t}\n\t}\n", or.O.Name, pc.Label)
		}
		body.WriteString("\tif notExecutable > 0 {\n\t\tt.Skipf(\"REPLAY-NOT-EXECUTABLE: %d clause(s) use ghost state that cannot be executed\", notExecutable)\n\t}\n")
	}
	var imps []string
	for p, n := range r.imports {
		imps = append(imps, fmt.Sprintf("\t%s %q\n", n, p))
	}
	sort.Strings(imps)
	src := fmt.Sprintf("//go:build verif\n\npackage %s\n\n// Replay of the solver's counterexample for obligation %s (generated by /verif/govc).\n\nimport (\n\t\"testing\"\n%s)\n\nfunc TestReplay(t *testing.T) {\n%s}\n", fn.Pkg.Pkg.Name(), or.O.Name, strings.Join(imps, ""), body.String())
	testFile := base + "_replay_test.go"
	os.WriteFile(testFile, []byte(src), 0o644)
	out.TestFile = testFile
	// run it against the real code
	pkgDir := filepath.Join(repo, strings.TrimPrefix(strings.TrimPrefix(fn.Pkg.Pkg.Path(), "github.com/gobwas/ws"), "/"))
	ov := fmt.Sprintf("{\"Replace\":{%q:%q}}", filepath.Join(pkgDir, "zz_replay_test.go"), testFile)
	os.WriteFile(base+".overlay.json", []byte(ov), 0o644)
	ctx2, cancel2 := context.WithTimeout(context.Background(), 120*time.Second)
	defer cancel2()
	gt := exec.CommandContext(ctx2, "go", "test", "-tags", "verif", "-overlay", base+".overlay.json", "-vet=off", "-count=1", "-timeout", "60s", "-run", "^TestReplay$", ".")
	gt.Dir = pkgDir
	gt.Env = append(os.Environ(), "GOFLAGS=-mod=mod", "GOPROXY=off", "GOSUMDB=off", "GOTOOLCHAIN=local")
	var gb bytes.Buffer
	gt.Stdout = &gb
	gt.Stderr = &gb
	gt.Run()
	res := gb.String()
	os.WriteFile(base+".replay.log", []byte(res), 0o644)
	switch {
	case strings.Contains(res, "REPLAY-CONFIRMED"):
		out.Confirmed = true
		out.Note = "counterexample replayed on the real code: " + firstLineWith(res, "REPLAY-CONFIRMED")
	case strings.Contains(res, "REPLAY-PRECONDITION"):
		out.Note = "the inputs rebuilt from the model do not satisfy the precondition (aliasing between inputs is lost): " + firstLineWith(res, "REPLAY-PRECONDITION")
	case strings.Contains(res, "REPLAY-NOT-EXECUTABLE"):
		out.Note = "clause uses ghost state that cannot be executed: " + firstLineWith(res, "REPLAY-NOT-EXECUTABLE")
	case strings.Contains(res, "\nok") || strings.HasPrefix(res, "ok"):
		out.Note = "the model does not reproduce on the real code (the failure depends on something the engine leaves uninterpreted, or the proof merely timed out)"
	default:
		out.Note = "replay test did not build or run: " + strings.SplitN(strings.TrimSpace(res), "\n", 2)[0]
	}
	return out
}

func firstLineWith(s, sub string) string {
	for _, l := range strings.Split(s, "\n") {
		if strings.Contains(l, sub) {
			return strings.TrimSpace(l)
		}
	}
	return ""
}

var _ = ssa.NaiveForm

// streamLike: an interface whose methods are among Read and Write (io.Reader, io.Writer, io.ReadWriter).
func streamLike(it *types.Interface) bool {
	if it.NumMethods() == 0 {
		return false
	}
	for i := 0; i < it.NumMethods(); i++ {
		n := it.Method(i).Name()
		if n != "Read" && n != "Write" {
			return false
		}
	}
	return true
}

// ioEOF: the term of the package-level value io.EOF (nil if package io is not loaded).
func (e *Engine) ioEOF(st *State) *Term {
	for _, p := range e.prog.AllPackages() {
		if p.Pkg.Path() == "io" {
			if g, ok := p.Members["EOF"].(*ssa.Global); ok {
				return e.globalValue(st, g)
			}
		}
	}
	return nil
}

package main

// Symbolic execution of go/ssa (NaiveForm) function bodies into SMT terms.

import (
	"fmt"
	"os"
	"go/ast"
	"go/constant"
	"go/token"
	"go/types"
	"math/big"
	"sort"
	"strings"

	"golang.org/x/tools/go/ssa"
)

type Obligation struct {
	Name     string // pkg.Func/kind/label
	Kind     string
	Func     string
	Label    string
	Cond     *Term
	Goal     *Term
	NFacts   int // facts[:NFacts] are available
	Pos      token.Position
	Unproved string
	Cover    bool // must be SAT (vacuity guard)
	Models   []*Term
	ModelNames []string
	Clause   *Clause
	Seq      int
}

type Engine struct {
	tb          *TB
	prog        *ssa.Program
	ssaPkgs     map[string]*ssa.Package
	cs          *ContractSet
	fnContract  map[*ssa.Function]*Contract
	extContract map[string]*Contract // "io.ReadFull", "bufio.Reader.ReadSlice"
	ifContract  map[string]*Contract // "io.Reader.Read"
	ifContractPkg map[string]*Contract // pkgpath\x00key
	curPkg      string
	anonStructs map[string]string
	declaring   map[string]bool
	heapSorts   map[string]Sort
	havocAllMin int // number of heaps known at the earliest havoc-everything of this run (-1: none)
	globalIDs   map[string]int
	globalsUsed map[string]bool
	globalOrder []*ssa.Global
	typeTags    map[string]int
	tagTypes    map[int]types.Type
	strLits     map[string]int
	strLitList  []string
	fnTable     map[string]*FuncVal // Fn constant name -> closure
	fnCount     int

	// per-VC-run
	facts     []*Term
	factKind  []string
	factSeq   []int
	seq       int
	supersededAt map[*Term]int
	havocConst map[*Term]bool
	havocLoc  map[*Term]*havocTarget // fresh heap value -> where it was stored
	regionFrame map[*Term]*regionFrameRec // fresh region array -> what it equals outside [lo,hi)
	obls      []*Obligation
	curFunc   string
	curProps  []string
	restart   bool
	havocCells map[*ssa.BasicBlock]map[ssa.Value]bool
	havocHeaps map[*ssa.BasicBlock]map[string]bool
	havocClock map[*ssa.BasicBlock]bool
	safetyN   map[string]int
	notes     []string // abstraction notes for evidence
	inlineDepthLimit int
	nocheck   bool
	ghostDepth int
	dispatchDepth int
	pendingFacts []*Term
	foldDone  map[*Term]bool
	foldUnfold map[string]func(t *Term)
	caseCombo []int
	astPkgs   map[string][]*ast.File
	errGlobals []*Term
}

func NewEngine(prog *ssa.Program) *Engine {
	e := &Engine{tb: NewTB(), prog: prog, ssaPkgs: map[string]*ssa.Package{},
		fnContract: map[*ssa.Function]*Contract{}, extContract: map[string]*Contract{}, ifContract: map[string]*Contract{}, ifContractPkg: map[string]*Contract{},
		anonStructs: map[string]string{}, declaring: map[string]bool{}, heapSorts: map[string]Sort{},
		globalIDs: map[string]int{}, globalsUsed: map[string]bool{}, typeTags: map[string]int{}, tagTypes: map[int]types.Type{},
		strLits: map[string]int{}, fnTable: map[string]*FuncVal{}, inlineDepthLimit: 12}
	e.tb.DeclareUF("LIT", "() (Array Ref "+string(SBytes)+")")
	return e
}

// resetRun clears per-run state but keeps declarations.
type regionFrameRec struct {
	base   *Term
	lo, hi *Term
}

func (e *Engine) resetRun() {
	e.facts = nil
	e.factKind = nil
	e.factSeq = nil
	e.seq = 0
	e.supersededAt = map[*Term]int{}
	e.havocConst = map[*Term]bool{}
	e.havocLoc = map[*Term]*havocTarget{}
	e.foldDone = nil
	e.foldUnfold = nil
	e.regionFrame = map[*Term]*regionFrameRec{}
	e.obls = nil
	e.safetyN = map[string]int{}
	e.globalsUsed = map[string]bool{}
	e.globalOrder = nil
	e.restart = false
	e.havocAllMin = -1
}

func (e *Engine) addFact(s *State, f *Term) { e.addFactK(s, f, "") }

func (e *Engine) addFactK(s *State, f *Term, kind string) {
	if f.IsTrue() || f.open || e.ghostDepth > 0 {
		return
	}
	e.facts = append(e.facts, e.tb.Implies(s.cond, f))
	e.factKind = append(e.factKind, kind)
	e.seq++
	e.factSeq = append(e.factSeq, e.seq)
}

func (e *Engine) addGlobalFact(f *Term) {
	if f.IsTrue() || f.open {
		return
	}
	e.facts = append(e.facts, f)
	e.factKind = append(e.factKind, "")
	e.seq++
	e.factSeq = append(e.factSeq, e.seq)
}

type Frame struct {
	fn        *ssa.Function
	vals      map[ssa.Value]Val
	cells     map[*ssa.Alloc]*Cell
	byPos     map[string]*PtrVal // "name@pos" -> storage of a source variable
	free      map[string]*PtrVal
	params    map[string]Val        // "name@pos" -> entry value of parameter
	defers    []*deferRec
	depth     int
	ghost     bool
	old       *State // state for ghostOld()
	entry     *State
	contract  *Contract
	caller    *Frame
	edge      map[[2]*ssa.BasicBlock]*State
	pred      *ssa.BasicBlock
	loopHead  map[*ssa.BasicBlock]*loopRec
	unrollBack map[*ssa.BasicBlock][]*State // back-edge states of the loop being unrolled (per header)
	retConds  []*Term
	retVals   [][]Val
	retStates []*State
	bound     bool // executing under a quantifier: facts suppressed
}

type deferRec struct {
	cond *Term
	call *ssa.CallCommon
	args []Val
	fnv  Val
}

type loopRec struct {
	backEdges int
	head    *State
	measure *Term
	ord     int
	spec    *LoopSpec
	targets []*havocTarget
}

func (e *Engine) posKey(name string, pos token.Pos) string {
	p := e.prog.Fset.Position(pos)
	return fmt.Sprintf("%s@%s:%d:%d", name, p.Filename, p.Line, p.Column)
}

func (e *Engine) newFrame(fn *ssa.Function, caller *Frame) *Frame {
	fr := &Frame{fn: fn, vals: map[ssa.Value]Val{}, cells: map[*ssa.Alloc]*Cell{}, byPos: map[string]*PtrVal{}, free: map[string]*PtrVal{}, params: map[string]Val{},
		caller: caller, edge: map[[2]*ssa.BasicBlock]*State{}, loopHead: map[*ssa.BasicBlock]*loopRec{}}
	if caller != nil {
		fr.depth = caller.depth + 1
		fr.ghost = caller.ghost
		fr.old = caller.old
		fr.bound = caller.bound
	}
	return fr
}

// ---------- values

func (e *Engine) term(fr *Frame, v ssa.Value) *Term {
	x := e.val(fr, v)
	switch x := x.(type) {
	case *Term:
		return x
	case *PtrVal:
		return e.ptrTerm(x)
	case *FuncVal:
		return e.fnTerm(x)
	}
	unsupported("value %s (%T) is not a term", v.Name(), x)
	return nil
}

func (e *Engine) fnTerm(f *FuncVal) *Term {
	// register closure under a fresh Fn constant
	for name, g := range e.fnTable {
		if g == f {
			return e.tb.Const(name, SFn)
		}
	}
	e.fnCount++
	name := fmt.Sprintf("fn_%s_%d", sanitize(f.Fn.Name()), e.fnCount)
	e.fnTable[name] = f
	c := e.tb.Const(name, SFn)
	e.addGlobalFact(e.tb.Not(e.tb.Eq(c, e.tb.Const("fn_nil", SFn))))
	return c
}

func (e *Engine) val(fr *Frame, v ssa.Value) Val {
	switch v := v.(type) {
	case *ssa.Const:
		return e.constVal(v)
	case *ssa.Global:
		return &PtrVal{Kind: KGlobal, Global: v, Typ: v.Type().(*types.Pointer).Elem()}
	case *ssa.Function:
		return &FuncVal{Fn: v}
	case *ssa.Builtin:
		return v
	}
	if x, ok := fr.vals[v]; ok {
		return x
	}
	if fv, ok := v.(*ssa.FreeVar); ok {
		unsupported("unbound free variable %s", fv.Name())
	}
	unsupported("use of undefined value %s in %s", v.Name(), fr.fn.Name())
	return nil
}

func (e *Engine) constVal(c *ssa.Const) Val {
	t := c.Type()
	tb := e.tb
	if c.Value == nil {
		// zero value / nil
		switch t.Underlying().(type) {
		case *types.Pointer:
			return &PtrVal{Kind: KNil, Typ: t.Underlying().(*types.Pointer).Elem()}
		case *types.Signature:
			return tb.Const("fn_nil", SFn)
		}
		if b, ok := t.Underlying().(*types.Basic); ok && b.Kind() == types.UntypedNil {
			return &PtrVal{Kind: KNil}
		}
		return e.zero(t)
	}
	switch u := t.Underlying().(type) {
	case *types.Basic:
		switch {
		case u.Info()&types.IsBoolean != 0:
			return tb.Bool(constant.BoolVal(c.Value))
		case u.Info()&types.IsString != 0:
			return e.strLit(constant.StringVal(c.Value))
		case u.Info()&types.IsInteger != 0:
			bi, ok := constant.Val(constant.ToInt(c.Value)).(*big.Int)
			if !ok {
				i64, _ := constant.Int64Val(constant.ToInt(c.Value))
				bi = big.NewInt(i64)
			}
			return tb.BVBig(bi, intWidth(u))
		}
	}
	unsupported("constant %s of type %s", c.Value, t)
	return nil
}

func (e *Engine) strLit(s string) *Term {
	id, ok := e.strLits[s]
	if !ok {
		id = len(e.strLitList) + 1
		e.strLits[s] = id
		e.strLitList = append(e.strLitList, s)
	}
	if len(s) == 0 {
		return e.tb.Ctor("Str", e.tb.RefLit(id), e.tb.BV(0, 64), e.tb.BV(0, 64))
	}
	return e.tb.Ctor("Str", e.tb.RefLit(id), e.tb.BV(0, 64), e.tb.BV(int64(len(s)), 64))
}

// litFacts returns the content facts for all string literals used.
func (e *Engine) litFacts() []*Term {
	var out []*Term
	lit := e.tb.App("LIT", ArraySort(SRef, SBytes))
	for i, s := range e.strLitList {
		arr := e.tb.Select(lit, e.tb.RefLit(i+1))
		for j := 0; j < len(s); j++ {
			out = append(out, e.tb.Eq(e.tb.mk("select", SBV8, "", nil, arr, e.tb.BV(int64(j), 64)), e.tb.BV(int64(s[j]), 8)))
		}
	}
	return out
}

// strByte reads byte i of string s in state st.
func (e *Engine) strByte(st *State, s *Term, i *Term) *Term {
	tb := e.tb
	base := tb.Acc(s, 0)
	idx := tb.BVBin("bvadd", tb.Acc(s, 1), i)
	if base.Op == "ctor" && base.Name == "lit" && base.Args[0].Op == "intlit" {
		id := int(base.Args[0].Val.Int64())
		if id >= 1 && id <= len(e.strLitList) && idx.Op == "bvlit" {
			str := e.strLitList[id-1]
			k := idx.Val.Int64()
			if idx.Val.IsInt64() && k >= 0 && k < int64(len(str)) {
				return tb.BV(int64(str[k]), 8)
			}
		}
		lit := tb.App("LIT", ArraySort(SRef, SBytes))
		return tb.Select(tb.Select(lit, base), idx)
	}
	if base.Op == "ctor" && base.Name != "lit" {
		return tb.Select(e.region(st, SBV8, base), idx)
	}
	lit := tb.App("LIT", ArraySort(SRef, SBytes))
	isLit := tb.mk("(_ is lit)", SBool, "", nil, base)
	return tb.Select(tb.Ite(isLit, tb.Select(lit, base), e.region(st, SBV8, base)), idx)
}

// ---------- allocation classification

// cellable reports whether all uses of an address value stay within loads, stores, field/index
// address computations and closure captures, so that the variable can live in a cell.
func (e *Engine) cellable(v ssa.Value, seen map[ssa.Value]bool) bool {
	if seen[v] {
		return true
	}
	seen[v] = true
	refs := v.Referrers()
	if refs == nil {
		return false
	}
	for _, r := range *refs {
		switch r := r.(type) {
		case *ssa.UnOp:
			if r.Op != token.MUL {
				return false
			}
		case *ssa.Store:
			if r.Val == v {
				return false
			}
		case *ssa.FieldAddr:
			if !e.cellable(r, seen) {
				return false
			}
		case *ssa.IndexAddr:
			if r.X != v {
				return false
			}
			if !e.cellable(r, seen) {
				return false
			}
		case *ssa.MakeClosure:
			// a closure that is stored, returned or boxed may be run by code that is not executed
			// here: its captured variables then have to live on the heap
			if closureEscapes(r) {
				return false
			}
			// find the free variable it binds to and check its uses
			fn := r.Fn.(*ssa.Function)
			for i, b := range r.Bindings {
				if b == v {
					if !e.cellable(fn.FreeVars[i], seen) {
						return false
					}
				}
			}
		case *ssa.DebugRef:
		default:
			return false
		}
	}
	return true
}

func (e *Engine) execAlloc(fr *Frame, st *State, a *ssa.Alloc) Val {
	t := a.Type().(*types.Pointer).Elem()
	var p *PtrVal
	if e.cellable(a, map[ssa.Value]bool{}) {
		c := &Cell{name: a.Comment, typ: t, key: a}
		fr.cells[a] = c
		st.cells[c] = e.zero(t)
		p = &PtrVal{Kind: KCell, Cell: c, Typ: t}
	} else {
		ref := e.newRef(st)
		p = &PtrVal{Kind: KObj, Ref: ref, Typ: t}
		e.storeObj(st, ref, t, e.zero(t))
	}
	if a.Comment != "" {
		fr.byPos[e.posKey(a.Comment, a.Pos())] = p
	}
	return p
}

// ---------- instruction execution

func (e *Engine) safety(fr *Frame, st *State, kind string, instr ssa.Instruction, goal *Term) {
	if fr.ghost || e.nocheck {
		return
	}
	if goal.IsTrue() {
		return
	}
	// name: ordinal per (function, kind) in execution order of the top-level function
	fname := e.curFunc
	key := fname + "/" + kind
	e.safetyN[key]++
	where := fr.fn.Name()
	label := fmt.Sprintf("%s#%d", where, e.safetyN[key])
	o := &Obligation{Name: fname + "/" + kind + "/" + label, Kind: kind, Func: fname, Label: label, Cond: st.cond, Goal: goal,
		NFacts: len(e.facts), Pos: e.prog.Fset.Position(instr.Pos())}
	e.obls = e.appendObl(o)
	// after the check, execution continues only if it held
	e.addFact(st, goal)
}

func (e *Engine) inBounds(idx, n *Term) *Term {
	tb := e.tb
	return tb.And(tb.BVCmp("bvsle", tb.BV(0, 64), idx), tb.BVCmp("bvslt", idx, n))
}

func (e *Engine) toBV64(fr *Frame, v ssa.Value) *Term {
	t := e.term(fr, v)
	w := t.Sort.Width()
	if w == 64 {
		return t
	}
	if isSigned(v.Type()) {
		return e.tb.SignExt(t, 64)
	}
	return e.tb.ZeroExt(t, 64)
}

func (e *Engine) execInstr(fr *Frame, st *State, ins ssa.Instruction) {
	tb := e.tb
	switch ins := ins.(type) {
	case *ssa.DebugRef:
	case *ssa.Alloc:
		fr.vals[ins] = e.execAlloc(fr, st, ins)
	case *ssa.Store:
		p, ok := e.val(fr, ins.Addr).(*PtrVal)
		if !ok {
			unsupported("store through non-pointer")
		}
		e.nilCheck(fr, st, p, ins)
		e.store(st, p, e.storeTerm(fr, ins.Val))
	case *ssa.UnOp:
		fr.vals[ins] = e.execUnOp(fr, st, ins)
	case *ssa.BinOp:
		fr.vals[ins] = e.execBinOp(fr, st, ins)
	case *ssa.FieldAddr:
		p, ok := e.val(fr, ins.X).(*PtrVal)
		if !ok {
			unsupported("FieldAddr on non-pointer")
		}
		e.nilCheck(fr, st, p, ins)
		stt := ins.X.Type().Underlying().(*types.Pointer).Elem()
		fr.vals[ins] = e.fieldAddr(p, stt.Underlying().(*types.Struct), stt, ins.Field)
	case *ssa.Field:
		x := e.term(fr, ins.X)
		fr.vals[ins] = tb.Acc(x, ins.Field)
	case *ssa.IndexAddr:
		fr.vals[ins] = e.execIndexAddr(fr, st, ins)
	case *ssa.Index:
		x := e.term(fr, ins.X)
		idx := e.toBV64(fr, ins.Index)
		switch u := ins.X.Type().Underlying().(type) {
		case *types.Array:
			e.safety(fr, st, "safe-idx", ins, e.inBounds(idx, tb.BV(u.Len(), 64)))
			fr.vals[ins] = tb.Select(x, idx)
		case *types.Basic: // string
			e.safety(fr, st, "safe-idx", ins, e.inBounds(idx, tb.Acc(x, 2)))
			fr.vals[ins] = e.strByte(st, x, idx)
		default:
			unsupported("Index on %s", ins.X.Type())
		}
	case *ssa.Slice:
		fr.vals[ins] = e.execSlice(fr, st, ins)
	case *ssa.MakeSlice:
		n := e.toBV64(fr, ins.Len)
		c := e.toBV64(fr, ins.Cap)
		lim := tb.BV(1<<48, 64)
		e.safety(fr, st, "safe-make", ins, tb.And(tb.BVCmp("bvsle", tb.BV(0, 64), n), tb.BVCmp("bvsle", n, c), tb.BVCmp("bvsle", c, lim)))
		es := e.sortOf(ins.Type().Underlying().(*types.Slice).Elem())
		ref := e.newRef(st)
		e.setRegion(st, es, ref, tb.ConstArr(ArraySort(SBV64, es), e.zero(ins.Type().Underlying().(*types.Slice).Elem())))
		fr.vals[ins] = tb.Ctor("Slice", ref, tb.BV(0, 64), n, c)
	case *ssa.Convert:
		fr.vals[ins] = e.execConvert(fr, st, ins)
	case *ssa.ChangeType:
		fr.vals[ins] = e.val(fr, ins.X)
	case *ssa.ChangeInterface:
		fr.vals[ins] = e.val(fr, ins.X)
	case *ssa.MakeInterface:
		fr.vals[ins] = e.makeIface(fr, st, ins.X.Type(), e.val(fr, ins.X))
	case *ssa.TypeAssert:
		fr.vals[ins] = e.execTypeAssert(fr, st, ins)
	case *ssa.Extract:
		tv, ok := e.val(fr, ins.Tuple).(TupleVal)
		if !ok {
			unsupported("extract from non-tuple")
		}
		fr.vals[ins] = tv[ins.Index]
	case *ssa.Phi:
		fr.vals[ins] = e.execPhi(fr, st, ins)
	case *ssa.MakeClosure:
		fv := &FuncVal{Fn: ins.Fn.(*ssa.Function)}
		for _, b := range ins.Bindings {
			fv.Bindings = append(fv.Bindings, e.val(fr, b))
		}
		fr.vals[ins] = fv
	case *ssa.Call:
		fr.vals[ins] = e.execCall(fr, st, ins, &ins.Call)
	case *ssa.Defer:
		d := &deferRec{cond: st.cond, call: &ins.Call}
		if !ins.Call.IsInvoke() {
			d.fnv = e.val(fr, ins.Call.Value)
		} else {
			d.fnv = e.val(fr, ins.Call.Value)
		}
		for _, a := range ins.Call.Args {
			d.args = append(d.args, e.val(fr, a))
		}
		fr.defers = append(fr.defers, d)
	case *ssa.RunDefers:
		e.runDefers(fr, st, ins)
	case *ssa.Lookup:
		if _, isMap := ins.X.Type().Underlying().(*types.Map); !isMap {
			unsupported("instruction %T (%s) in %s", ins, ins, fr.fn.String())
		}
		// map read: maps are not modelled; a lookup yields an arbitrary (well-formed) value and,
		// in the comma-ok form, an arbitrary flag. Reads have no side effect, so this only loses
		// information.
		mt := ins.X.Type().Underlying().(*types.Map)
		v := e.freshOf(st, "maplookup", mt.Elem())
		e.assumeWFVal(fr, st, v, mt.Elem())
		if ins.CommaOk {
			fr.vals[ins] = TupleVal([]Val{v, e.tb.Fresh("mapok", SBool)})
		} else {
			fr.vals[ins] = v
		}
		e.notes = append(e.notes, "map lookup in "+fr.fn.Name()+" abstracted: arbitrary element")
	case *ssa.MakeMap, *ssa.MapUpdate, *ssa.MakeChan, *ssa.Send, *ssa.Select, *ssa.Go, *ssa.Range, *ssa.Next:
		unsupported("instruction %T (%s) in %s", ins, ins, fr.fn.String())
	case *ssa.SliceToArrayPointer, *ssa.MultiConvert:
		unsupported("instruction %T", ins)
	default:
		unsupported("instruction %T", ins)
	}
}

func (e *Engine) nilCheck(fr *Frame, st *State, p *PtrVal, ins ssa.Instruction) {
	if p.Kind == KNil {
		e.safety(fr, st, "safe-nil", ins, e.tb.False())
	}
}

// storeTerm converts a value to be stored into a term.
func (e *Engine) storeTerm(fr *Frame, v ssa.Value) *Term {
	x := e.val(fr, v)
	switch x := x.(type) {
	case *Term:
		return x
	case *PtrVal:
		return e.ptrTerm(x)
	case *FuncVal:
		return e.fnTerm(x)
	}
	unsupported("cannot store value of kind %T", x)
	return nil
}

func (e *Engine) execUnOp(fr *Frame, st *State, ins *ssa.UnOp) Val {
	tb := e.tb
	switch ins.Op {
	case token.MUL: // load
		p, ok := e.val(fr, ins.X).(*PtrVal)
		if !ok {
			unsupported("load through non-pointer %T", e.val(fr, ins.X))
		}
		e.nilCheck(fr, st, p, ins)
		v := e.load(st, p)
		return e.wrapLoaded(fr, st, v, ins.Type())
	case token.NOT:
		return tb.Not(e.term(fr, ins.X))
	case token.SUB:
		return tb.BVNeg(e.term(fr, ins.X))
	case token.XOR:
		return tb.BVNot(e.term(fr, ins.X))
	}
	unsupported("unop %s", ins.Op)
	return nil
}

// wrapLoaded turns a loaded term into the right Val kind (pointers become PtrVal) and adds
// the allocation-order fact for references.
func (e *Engine) wrapLoaded(fr *Frame, st *State, v *Term, t types.Type) Val {
	switch u := t.Underlying().(type) {
	case *types.Pointer:
		if !fr.bound {
			e.addFact(st, e.tb.IntCmp("<", e.tb.RootID(v), st.clock))
		}
		return &PtrVal{Kind: KObj, Ref: v, Typ: u.Elem()}
	case *types.Slice:
		if !fr.bound && v.Op != "ctor" {
			e.addFact(st, e.wfSlice(st, v))
		}
	case *types.Interface:
		if !fr.bound && v.Op != "ctor" {
			e.addFact(st, e.tb.IntCmp("<", e.tb.RootID(e.tb.Acc(v, 1)), st.clock))
			e.addFact(st, e.tb.Implies(e.tb.Eq(e.tb.Acc(v, 0), e.tb.Int(0)), e.tb.Eq(e.tb.Acc(v, 1), e.tb.RefNil())))
		}
	case *types.Signature:
		if v.Op == "const" {
			if f, ok := e.fnTable[v.Name]; ok {
				return f
			}
		}
	}
	return v
}

func (e *Engine) wfSlice(st *State, s *Term) *Term {
	tb := e.tb
	z := tb.BV(0, 64)
	lim := tb.BV(1<<48, 64)
	return tb.And(
		tb.BVCmp("bvsle", z, e.sOff(s)), tb.BVCmp("bvsle", z, e.sLen(s)), tb.BVCmp("bvsle", e.sLen(s), e.sCap(s)),
		tb.BVCmp("bvsle", e.sCap(s), lim), tb.BVCmp("bvsle", e.sOff(s), lim),
		tb.IntCmp("<", tb.RootID(e.sBase(s)), st.clock),
		tb.Not(tb.mk("(_ is lit)", SBool, "", nil, e.sBase(s))),
		tb.Implies(tb.Eq(e.sBase(s), tb.RefNil()), tb.Eq(e.sCap(s), z)),
		tb.Or(tb.Eq(e.sBase(s), tb.RefNil()), tb.IntCmp(">=", tb.RootID(e.sBase(s)), tb.Int(0))),
	)
}

func (e *Engine) wfStr(st *State, s *Term) *Term {
	tb := e.tb
	z := tb.BV(0, 64)
	lim := tb.BV(1<<48, 64)
	return tb.And(
		tb.BVCmp("bvsle", z, tb.Acc(s, 1)), tb.BVCmp("bvsle", z, tb.Acc(s, 2)),
		tb.BVCmp("bvsle", tb.Acc(s, 2), lim), tb.BVCmp("bvsle", tb.Acc(s, 1), lim),
		tb.IntCmp("<", tb.RootID(tb.Acc(s, 0)), st.clock),
		tb.Implies(tb.Eq(tb.Acc(s, 0), tb.RefNil()), tb.Eq(tb.Acc(s, 2), z)),
	)
}

func cmpOp(op token.Token, signed bool) string {
	p := "bvu"
	if signed {
		p = "bvs"
	}
	switch op {
	case token.LSS:
		return p + "lt"
	case token.LEQ:
		return p + "le"
	case token.GTR:
		return p + "gt"
	case token.GEQ:
		return p + "ge"
	}
	return ""
}

func (e *Engine) execBinOp(fr *Frame, st *State, ins *ssa.BinOp) Val {
	tb := e.tb
	xt := ins.X.Type()
	// comparisons of pointers / interfaces / strings
	switch ins.Op {
	case token.EQL, token.NEQ:
		var eq *Term
		switch xt.Underlying().(type) {
		case *types.Basic:
			if b := xt.Underlying().(*types.Basic); b.Info()&types.IsString != 0 {
				eq = e.strEq(fr, st, e.term(fr, ins.X), e.term(fr, ins.Y))
				break
			}
			eq = tb.Eq(e.term(fr, ins.X), e.term(fr, ins.Y))
		case *types.Slice:
			// only comparison with nil is legal
			x, y := e.val(fr, ins.X), e.val(fr, ins.Y)
			var s *Term
			if t, ok := x.(*Term); ok && t.Sort == SSlice {
				s = t
			}
			if t, ok := y.(*Term); ok && t.Sort == SSlice && (s == nil || s == e.nilSlice()) {
				s = t
			}
			if s == nil {
				s = e.nilSlice()
			}
			eq = tb.Eq(e.sBase(s), tb.RefNil())
		case *types.Signature:
			eq = tb.Eq(e.term(fr, ins.X), e.term(fr, ins.Y))
		case *types.Array, *types.Struct:
			eq = e.valueEq(fr, st, e.term(fr, ins.X), e.term(fr, ins.Y), xt)
		case *types.Interface:
			x, y := e.term(fr, ins.X), e.term(fr, ins.Y)
			switch {
			case y == e.nilIface():
				eq = tb.Eq(tb.Acc(x, 0), tb.Int(0))
			case x == e.nilIface():
				eq = tb.Eq(tb.Acc(y, 0), tb.Int(0))
			default:
				eq = tb.Eq(x, y)
			}
		default:
			eq = tb.Eq(e.term(fr, ins.X), e.term(fr, ins.Y))
		}
		if ins.Op == token.NEQ {
			return tb.Not(eq)
		}
		return eq
	}
	if b, ok := xt.Underlying().(*types.Basic); ok && b.Info()&types.IsString != 0 {
		if ins.Op == token.ADD {
			// string concatenation: fresh string holding the bytes of x then those of y
			x, y := e.term(fr, ins.X), e.term(fr, ins.Y)
			ref := e.newRef(st)
			if !fr.bound {
				e.copyInto(fr, st, ref, tb.BV(0, 64), func(k *Term) *Term { return e.strByte(st, x, k) }, tb.Acc(x, 2), true)
				e.copyInto(fr, st, ref, tb.Acc(x, 2), func(k *Term) *Term { return e.strByte(st, y, k) }, tb.Acc(y, 2), true)
			}
			return tb.Ctor("Str", ref, tb.BV(0, 64), tb.BVBin("bvadd", tb.Acc(x, 2), tb.Acc(y, 2)))
		}
		unsupported("string operator %s", ins.Op)
	}
	x := e.term(fr, ins.X)
	if x.Sort == SBool {
		y := e.term(fr, ins.Y)
		switch ins.Op {
		case token.AND, token.LAND:
			return tb.And(x, y)
		case token.OR, token.LOR:
			return tb.Or(x, y)
		}
		unsupported("bool binop %s", ins.Op)
	}
	w := x.Sort.Width()
	if w == 0 {
		unsupported("binop %s on sort %s", ins.Op, x.Sort)
	}
	signed := isSigned(xt)
	switch ins.Op {
	case token.SHL, token.SHR:
		y := e.term(fr, ins.Y)
		yw := y.Sort.Width()
		// shift count: negative count panics (signed counts)
		if isSigned(ins.Y.Type()) {
			e.safety(fr, st, "safe-shift", ins, tb.BVCmp("bvsge", y, tb.BV(0, yw)))
		}
		var cnt *Term
		if yw == w {
			cnt = y
		} else if yw < w {
			cnt = tb.ZeroExt(y, w)
		} else {
			// saturate
			big := tb.BVCmp("bvuge", y, tb.BV(int64(w), yw))
			cnt = tb.Ite(big, tb.BV(int64(w), w), tb.Extract(y, w-1, 0))
		}
		if ins.Op == token.SHL {
			return tb.BVBin("bvshl", x, cnt)
		}
		if signed {
			return tb.BVBin("bvashr", x, cnt)
		}
		return tb.BVBin("bvlshr", x, cnt)
	}
	y := e.term(fr, ins.Y)
	switch ins.Op {
	case token.ADD:
		return tb.BVBin("bvadd", x, y)
	case token.SUB:
		return tb.BVBin("bvsub", x, y)
	case token.MUL:
		return tb.BVBin("bvmul", x, y)
	case token.QUO, token.REM:
		e.safety(fr, st, "safe-div", ins, tb.Not(tb.Eq(y, tb.BV(0, w))))
		op := "bvudiv"
		if ins.Op == token.REM {
			op = "bvurem"
		}
		if signed {
			op = "bvsdiv"
			if ins.Op == token.REM {
				op = "bvsrem"
			}
		}
		return tb.BVBin(op, x, y)
	case token.AND:
		return tb.BVBin("bvand", x, y)
	case token.OR:
		return tb.BVBin("bvor", x, y)
	case token.XOR:
		return tb.BVBin("bvxor", x, y)
	case token.AND_NOT:
		return tb.BVBin("bvand", x, tb.BVNot(y))
	case token.LSS, token.LEQ, token.GTR, token.GEQ:
		return tb.BVCmp(cmpOp(ins.Op, signed), x, y)
	}
	unsupported("binop %s", ins.Op)
	return nil
}

func (e *Engine) arrayEq(a, b *Term, at *types.Array) *Term {
	tb := e.tb
	if at.Len() <= 16 {
		var cs []*Term
		for i := int64(0); i < at.Len(); i++ {
			cs = append(cs, tb.Eq(tb.Select(a, tb.BV(i, 64)), tb.Select(b, tb.BV(i, 64))))
		}
		return tb.And(cs...)
	}
	k := tb.BoundVar("k", SBV64)
	return tb.Forall([]*Term{k}, tb.Implies(e.inBounds(k, tb.BV(at.Len(), 64)), tb.Eq(tb.Select(a, k), tb.Select(b, k))))
}

func (e *Engine) strEq(fr *Frame, st *State, a, b *Term) *Term {
	tb := e.tb
	la, lb := tb.Acc(a, 2), tb.Acc(b, 2)
	n := int64(-1)
	if la.Op == "bvlit" {
		n = la.Val.Int64()
	} else if lb.Op == "bvlit" {
		n = lb.Val.Int64()
	}
	if n >= 0 && n <= 64 {
		cs := []*Term{tb.Eq(la, lb)}
		for i := int64(0); i < n; i++ {
			cs = append(cs, tb.Eq(e.strByte(st, a, tb.BV(i, 64)), e.strByte(st, b, tb.BV(i, 64))))
		}
		return tb.And(cs...)
	}
	k := tb.BoundVar("k", SBV64)
	return tb.And(tb.Eq(la, lb), tb.Forall([]*Term{k}, tb.Implies(e.inBounds(k, la), tb.Eq(e.strByte(st, a, k), e.strByte(st, b, k)))))
}

func (e *Engine) execIndexAddr(fr *Frame, st *State, ins *ssa.IndexAddr) Val {
	tb := e.tb
	idx := e.toBV64(fr, ins.Index)
	switch u := ins.X.Type().Underlying().(type) {
	case *types.Slice:
		s := e.term(fr, ins.X)
		e.safety(fr, st, "safe-idx", ins, e.inBounds(idx, e.sLen(s)))
		pos := tb.BVBin("bvadd", e.sOff(s), idx)
		if e.sortOf(u.Elem()) == SBV8 {
			return &PtrVal{Kind: KByte, Ref: e.sBase(s), Idx: pos, Typ: u.Elem()}
		}
		return &PtrVal{Kind: KElem, Ref: e.sBase(s), Idx: pos, Typ: u.Elem()}
	case *types.Pointer:
		at := u.Elem().Underlying().(*types.Array)
		p, ok := e.val(fr, ins.X).(*PtrVal)
		if !ok {
			unsupported("IndexAddr on non-pointer")
		}
		e.safety(fr, st, "safe-idx", ins, e.inBounds(idx, tb.BV(at.Len(), 64)))
		switch p.Kind {
		case KCell:
			return &PtrVal{Kind: KCell, Cell: p.Cell, Path: append(append([]PathElem{}, p.Path...), PathElem{Index: idx}), Typ: at.Elem()}
		case KGlobal:
			return &PtrVal{Kind: KGlobal, Global: p.Global, Path: append(append([]PathElem{}, p.Path...), PathElem{Index: idx}), Typ: at.Elem()}
		case KObj:
			if e.sortOf(at.Elem()) == SBV8 {
				return &PtrVal{Kind: KByte, Ref: p.Ref, Idx: idx, Typ: at.Elem()}
			}
			return &PtrVal{Kind: KElem, Ref: p.Ref, Idx: idx, Typ: at.Elem()}
		case KElem:
			return &PtrVal{Kind: KElem, Ref: p.Ref, Idx: p.Idx, Typ: p.Typ, Path: append(append([]PathElem{}, p.Path...), PathElem{Index: idx})}
		}
		unsupported("IndexAddr on pointer kind %d", p.Kind)
	}
	unsupported("IndexAddr on %s", ins.X.Type())
	return nil
}

func (e *Engine) execSlice(fr *Frame, st *State, ins *ssa.Slice) Val {
	tb := e.tb
	z := tb.BV(0, 64)
	opt := func(v ssa.Value, def *Term) *Term {
		if v == nil {
			return def
		}
		return e.toBV64(fr, v)
	}
	switch u := ins.X.Type().Underlying().(type) {
	case *types.Slice:
		s := e.term(fr, ins.X)
		lo := opt(ins.Low, z)
		hi := opt(ins.High, e.sLen(s))
		mx := opt(ins.Max, e.sCap(s))
		e.safety(fr, st, "safe-slice", ins, tb.And(tb.BVCmp("bvsle", z, lo), tb.BVCmp("bvsle", lo, hi), tb.BVCmp("bvsle", hi, mx), tb.BVCmp("bvsle", mx, e.sCap(s))))
		return tb.Ctor("Slice", e.sBase(s), tb.BVBin("bvadd", e.sOff(s), lo), tb.BVBin("bvsub", hi, lo), tb.BVBin("bvsub", mx, lo))
	case *types.Basic: // string
		s := e.term(fr, ins.X)
		lo := opt(ins.Low, z)
		hi := opt(ins.High, tb.Acc(s, 2))
		e.safety(fr, st, "safe-slice", ins, tb.And(tb.BVCmp("bvsle", z, lo), tb.BVCmp("bvsle", lo, hi), tb.BVCmp("bvsle", hi, tb.Acc(s, 2))))
		return tb.Ctor("Str", tb.Acc(s, 0), tb.BVBin("bvadd", tb.Acc(s, 1), lo), tb.BVBin("bvsub", hi, lo))
	case *types.Pointer:
		at := u.Elem().Underlying().(*types.Array)
		p, ok := e.val(fr, ins.X).(*PtrVal)
		if !ok || p.Kind != KObj && p.Kind != KGlobal {
			unsupported("slicing an array that is not a heap object (kind %v)", p)
		}
		n := tb.BV(at.Len(), 64)
		lo := opt(ins.Low, z)
		hi := opt(ins.High, n)
		mx := opt(ins.Max, n)
		e.safety(fr, st, "safe-slice", ins, tb.And(tb.BVCmp("bvsle", z, lo), tb.BVCmp("bvsle", lo, hi), tb.BVCmp("bvsle", hi, mx), tb.BVCmp("bvsle", mx, n)))
		ref := e.ptrTerm(p)
		return tb.Ctor("Slice", ref, lo, tb.BVBin("bvsub", hi, lo), tb.BVBin("bvsub", mx, lo))
	}
	unsupported("slice of %s", ins.X.Type())
	return nil
}

func (e *Engine) execConvert(fr *Frame, st *State, ins *ssa.Convert) Val {
	tb := e.tb
	from, to := ins.X.Type().Underlying(), ins.Type().Underlying()
	fb, fok := from.(*types.Basic)
	tbb, tok := to.(*types.Basic)
	switch {
	case fok && tok && fb.Info()&types.IsInteger != 0 && tbb.Info()&types.IsInteger != 0:
		x := e.term(fr, ins.X)
		tw := intWidth(tbb)
		if isSigned(ins.X.Type()) {
			return tb.SignExt(x, tw)
		}
		return tb.ZeroExt(x, tw)
	case fok && fb.Info()&types.IsString != 0 && isByteSlice(to):
		// []byte(s): fresh region, copy
		s := e.term(fr, ins.X)
		ref := e.newRef(st)
		n := tb.Acc(s, 2)
		e.copyInto(fr, st, ref, tb.BV(0, 64), func(k *Term) *Term { return e.strByte(st, s, k) }, n, true)
		return tb.Ctor("Slice", ref, tb.BV(0, 64), n, n)
	case tok && tbb.Info()&types.IsString != 0 && isByteSlice(from):
		s := e.term(fr, ins.X)
		ref := e.newRef(st)
		n := e.sLen(s)
		src := e.region(st, SBV8, e.sBase(s))
		off := e.sOff(s)
		e.copyInto(fr, st, ref, tb.BV(0, 64), func(k *Term) *Term { return tb.Select(src, tb.BVBin("bvadd", off, k)) }, n, true)
		return tb.Ctor("Str", ref, tb.BV(0, 64), n)
	case tok && tbb.Info()&types.IsString != 0 && fok && fb.Info()&types.IsInteger != 0:
		// string(rune): a fresh UTF-8 encoding of 1..4 bytes; its contents are left unspecified
		ref := e.newRef(st)
		n := tb.Fresh("runelen", SBV64)
		e.addFact(st, tb.And(tb.BVCmp("bvsle", tb.BV(1, 64), n), tb.BVCmp("bvsle", n, tb.BV(4, 64))))
		return tb.Ctor("Str", ref, tb.BV(0, 64), n)
	case tok && tbb.Kind() == types.UnsafePointer:
		// unsafe.Pointer(p)
		if p, ok := e.val(fr, ins.X).(*PtrVal); ok {
			return p
		}
		return e.val(fr, ins.X)
	case fok && fb.Kind() == types.UnsafePointer:
		return e.val(fr, ins.X)
	}
	unsupported("conversion %s -> %s", ins.X.Type(), ins.Type())
	return nil
}

func isByteSlice(t types.Type) bool {
	s, ok := t.(*types.Slice)
	if !ok {
		return false
	}
	b, ok := s.Elem().Underlying().(*types.Basic)
	return ok && (b.Kind() == types.Uint8)
}

// copyInto writes n bytes src(0..n-1) into region ref at offset doff. If fresh, the region is new.
func (e *Engine) copyInto(fr *Frame, st *State, ref, doff *Term, src func(k *Term) *Term, n *Term, fresh bool) {
	tb := e.tb
	old := e.region(st, SBV8, ref)
	if n.Op == "bvlit" && n.Val.IsInt64() && n.Val.Int64() <= 32 {
		arr := old
		for i := int64(0); i < n.Val.Int64(); i++ {
			k := tb.BV(i, 64)
			arr = tb.Store(arr, tb.BVBin("bvadd", doff, k), src(k))
		}
		e.setRegion(st, SBV8, ref, arr)
		return
	}
	if ub := e.smallUpperBound(n); ub > 0 {
		// symbolic length with a small syntactic upper bound: guarded stores, no quantifier.
		// All source bytes are read before any store (memmove semantics).
		vals := make([]*Term, ub)
		for i := int64(0); i < ub; i++ {
			vals[i] = src(tb.BV(i, 64))
		}
		arr := old
		for i := int64(0); i < ub; i++ {
			k := tb.BV(i, 64)
			idx := tb.BVBin("bvadd", doff, k)
			arr = tb.Store(arr, idx, tb.Ite(tb.BVCmp("bvslt", k, n), vals[i], tb.Select(arr, idx)))
		}
		e.setRegion(st, SBV8, ref, arr)
		return
	}
	na := tb.Fresh("cp", SBytes)
	k := tb.BoundVar("k", SBV64)
	rel := tb.BVBin("bvsub", k, doff)
	in := tb.And(tb.BVCmp("bvsle", doff, k), tb.BVCmp("bvslt", k, tb.BVBin("bvadd", doff, n)))
	body := tb.Eq(tb.Select(na, k), tb.Ite(in, src(rel), tb.Select(old, k)))
	if fr.bound {
		unsupported("copy under a quantifier")
	}
	e.addFactK(st, tb.Forall([]*Term{k}, body, tb.mk("select", SBV8, "", nil, na, k)), "hframe")
	e.regionFrame[na] = &regionFrameRec{base: old, lo: doff, hi: tb.BVBin("bvadd", doff, n)}
	e.setRegion(st, SBV8, ref, na)
}

func (e *Engine) typeTag(t types.Type) int {
	k := typeKey(t)
	if id, ok := e.typeTags[k]; ok {
		return id
	}
	id := len(e.typeTags) + 1
	e.typeTags[k] = id
	e.tagTypes[id] = t
	return id
}

func (e *Engine) makeIface(fr *Frame, st *State, t types.Type, v Val) *Term {
	tb := e.tb
	if _, ok := t.Underlying().(*types.Interface); ok {
		return v.(*Term)
	}
	tag := tb.Int(int64(e.typeTag(t)))
	switch x := v.(type) {
	case *PtrVal:
		return tb.Ctor("Iface", tag, e.ptrTerm(x))
	case *FuncVal:
		ref := e.newRef(st)
		e.storeObj(st, ref, t, e.fnTerm(x))
		return tb.Ctor("Iface", tag, ref)
	case *Term:
		if _, ok := t.Underlying().(*types.Pointer); ok {
			return tb.Ctor("Iface", tag, x)
		}
		// box the value: immutable, identified by (type, value)
		return tb.Ctor("Iface", tag, e.box(st, x))
	}
	unsupported("MakeInterface of %T", v)
	return nil
}

func (e *Engine) implements(tagTerm *Term, iface *types.Interface, ifaceName string) *Term {
	tb := e.tb
	if tagTerm.Op == "intlit" {
		id := int(tagTerm.Val.Int64())
		if id == 0 {
			return tb.False()
		}
		if t, ok := e.tagTypes[id]; ok {
			return tb.Bool(types.Implements(t, iface))
		}
	}
	if tagTerm.Op == "ite" {
		return tb.Ite(tagTerm.Args[0], e.implements(tagTerm.Args[1], iface, ifaceName), e.implements(tagTerm.Args[2], iface, ifaceName))
	}
	fn := "impl_" + sanitize(ifaceName)
	tb.DeclareUF(fn, "(Int) Bool")
	return tb.And(tb.Not(tb.Eq(tagTerm, tb.Int(0))), tb.App(fn, SBool, tagTerm))
}

func (e *Engine) execTypeAssert(fr *Frame, st *State, ins *ssa.TypeAssert) Val {
	tb := e.tb
	x := e.term(fr, ins.X)
	tag := tb.Acc(x, 0)
	var ok *Term
	var v Val
	if it, isI := ins.AssertedType.Underlying().(*types.Interface); isI {
		ok = e.implements(tag, it, types.TypeString(ins.AssertedType, nil))
		v = x
	} else {
		ok = tb.Eq(tag, tb.Int(int64(e.typeTag(ins.AssertedType))))
		ref := tb.Acc(x, 1)
		if pt, isP := ins.AssertedType.Underlying().(*types.Pointer); isP {
			v = &PtrVal{Kind: KObj, Ref: ref, Typ: pt.Elem()}
		} else {
			v = e.wrapLoaded(fr, st, e.unbox(ref, e.sortOf(ins.AssertedType)), ins.AssertedType)
		}
	}
	if ins.CommaOk {
		return TupleVal{v, ok}
	}
	e.safety(fr, st, "safe-assert", ins, ok)
	return v
}

func (e *Engine) execPhi(fr *Frame, st *State, ins *ssa.Phi) Val {
	// value depends on the incoming edge; we merge by edge conditions recorded for this block
	b := ins.Block()
	var res Val
	for i := len(b.Preds) - 1; i >= 0; i-- {
		p := b.Preds[i]
		es := fr.edge[[2]*ssa.BasicBlock{p, b}]
		if es == nil || es.dead {
			continue
		}
		v := e.val(fr, ins.Edges[i])
		if res == nil {
			res = v
			continue
		}
		vt, ok1 := v.(*Term)
		rt, ok2 := res.(*Term)
		if !ok1 || !ok2 {
			unsupported("phi of non-term values")
		}
		res = e.tb.Ite(es.cond, vt, rt)
	}
	if res == nil {
		unsupported("phi with no live incoming edge")
	}
	return res
}

// ---------- running a function body

func (e *Engine) bindParams(fr *Frame, args []Val) {
	fn := fr.fn
	if len(args) != len(fn.Params) {
		unsupported("arity mismatch calling %s: %d vs %d", fn.Name(), len(args), len(fn.Params))
	}
	for i, p := range fn.Params {
		fr.vals[p] = args[i]
		fr.params[e.posKey(p.Name(), p.Pos())] = args[i]
	}
}

type blockOrder struct {
	order []*ssa.BasicBlock
	back  map[[2]*ssa.BasicBlock]bool
	loops map[*ssa.BasicBlock]map[*ssa.BasicBlock]bool // header -> body blocks
}

func computeOrder(fn *ssa.Function) *blockOrder {
	bo := &blockOrder{back: map[[2]*ssa.BasicBlock]bool{}, loops: map[*ssa.BasicBlock]map[*ssa.BasicBlock]bool{}}
	if len(fn.Blocks) == 0 {
		return bo
	}
	// back edges: target dominates source
	for _, b := range fn.Blocks {
		for _, s := range b.Succs {
			if s.Dominates(b) {
				bo.back[[2]*ssa.BasicBlock{b, s}] = true
				body := bo.loops[s]
				if body == nil {
					body = map[*ssa.BasicBlock]bool{s: true}
					bo.loops[s] = body
				}
				// natural loop: nodes that reach b without passing s
				var stack []*ssa.BasicBlock
				if !body[b] {
					body[b] = true
					stack = append(stack, b)
				}
				for len(stack) > 0 {
					x := stack[len(stack)-1]
					stack = stack[:len(stack)-1]
					for _, p := range x.Preds {
						if !body[p] {
							body[p] = true
							stack = append(stack, p)
						}
					}
				}
			}
		}
	}
	// reverse postorder ignoring back edges
	visited := map[*ssa.BasicBlock]bool{}
	var post []*ssa.BasicBlock
	var dfs func(b *ssa.BasicBlock)
	depth := func(b *ssa.BasicBlock) int {
		d := 0
		for _, body := range bo.loops {
			if body[b] {
				d++
			}
		}
		return d
	}
	dfs = func(b *ssa.BasicBlock) {
		visited[b] = true
		// visit loop exits first so that, in reverse postorder, a loop's body precedes its continuation
		succs := append([]*ssa.BasicBlock{}, b.Succs...)
		sort.SliceStable(succs, func(i, j int) bool {
			di, dj := depth(succs[i]), depth(succs[j])
			if di != dj {
				return di < dj
			}
			return false
		})
		if len(succs) == 2 && depth(succs[0]) == depth(succs[1]) {
			succs[0], succs[1] = succs[1], succs[0]
		}
		for _, s := range succs {
			if bo.back[[2]*ssa.BasicBlock{b, s}] || visited[s] {
				continue
			}
			dfs(s)
		}
		post = append(post, b)
	}
	dfs(fn.Blocks[0])
	// recover block also reachable? ignore fn.Recover
	for i := len(post) - 1; i >= 0; i-- {
		bo.order = append(bo.order, post[i])
	}
	return bo
}

func (e *Engine) mergeStates(ins []*State) *State {
	tb := e.tb
	var live []*State
	for _, s := range ins {
		if s != nil && !s.dead && !s.cond.IsFalse() {
			live = append(live, s)
		}
	}
	if len(live) == 0 {
		return &State{cond: tb.False(), cells: map[*Cell]*Term{}, heaps: map[string]*Term{}, clock: tb.Int(0), dead: true}
	}
	if len(live) == 1 {
		return live[0].clone()
	}
	out := live[0].clone()
	conds := []*Term{live[0].cond}
	for _, s := range live[1:] {
		conds = append(conds, s.cond)
		for c, v := range s.cells {
			ov, ok := out.cells[c]
			if !ok {
				out.cells[c] = v
				continue
			}
			if ov != v {
				out.cells[c] = tb.Ite(s.cond, v, ov)
			}
		}
		for n, h := range s.heaps {
			oh, ok := out.heaps[n]
			if !ok {
				oh = tb.Const("h0_"+sanitize(n), h.Sort)
			}
			if oh != h {
				out.heaps[n] = tb.Ite(s.cond, h, oh)
			} else {
				out.heaps[n] = h
			}
		}
		for n, oh := range out.heaps {
			if _, ok := s.heaps[n]; !ok {
				h0 := tb.Const("h0_"+sanitize(n), oh.Sort)
				if oh != h0 {
					out.heaps[n] = tb.Ite(s.cond, h0, oh)
				}
			}
		}
		if out.clock != s.clock {
			out.clock = tb.Ite(s.cond, s.clock, out.clock)
		}
	}
	out.cond = tb.Or(conds...)
	return out
}

// runBody executes fr.fn from state st (params already bound). It returns the merged results and state.
func (e *Engine) runBody(fr *Frame, st *State) ([]Val, *State) {
	fn := fr.fn
	if len(fn.Blocks) == 0 {
		unsupported("function %s has no body", fn.String())
	}
	fr.entry = st.clone()
	bo := computeOrder(fn)
	loopOrd := e.loopOrdinals(fn, bo)
	if os.Getenv("GOVC_DEBUG") != "" && fr.depth == 0 && !fr.ghost {
		for _, b := range bo.order {
			fmt.Fprintf(os.Stderr, "ORDER %s: block %d %s\n", fn.Name(), b.Index, b.Comment)
		}
	}
	skip := map[*ssa.BasicBlock]bool{}
	for _, b := range bo.order {
		if skip[b] {
			continue
		}
		var st0 *State
		if b == fn.Blocks[0] {
			st0 = st
		} else {
			var ins []*State
			for _, p := range b.Preds {
				if bo.back[[2]*ssa.BasicBlock{p, b}] {
					continue
				}
				ins = append(ins, fr.edge[[2]*ssa.BasicBlock{p, b}])
			}
			st0 = e.mergeStates(ins)
		}
		if st0.dead || st0.cond.IsFalse() {
			// unreachable block: mark outgoing edges dead
			for _, s := range b.Succs {
				d := st0.clone()
				d.dead = true
				fr.edge[[2]*ssa.BasicBlock{b, s}] = d
			}
			continue
		}
		if body, isHead := bo.loops[b]; isHead {
			if spec := e.loopSpec(fr, loopOrd[b]); spec != nil && spec.Unroll > 0 {
				e.unrollLoop(fr, st0, b, bo, loopOrd, spec.Unroll)
				for bb := range body {
					skip[bb] = true
				}
				continue
			}
			e.enterLoop(fr, st0, b, bo, loopOrd[b])
		}
		e.execBlock(fr, st0, b, bo)
	}
	return e.mergeReturns(fr)
}

func (e *Engine) loopSpec(fr *Frame, ord int) *LoopSpec {
	if fr.contract == nil {
		return nil
	}
	return fr.contract.Loops[ord]
}

// unrollLoop executes a loop by passing through its header at most k times ("loop N unroll k").
// The state that would enter the header a (k+1)-th time must be unreachable: that is the
// unwinding obligation, and with it discharged the unrolling is complete, not a bound.
func (e *Engine) unrollLoop(fr *Frame, st0 *State, h *ssa.BasicBlock, bo *blockOrder, loopOrd map[*ssa.BasicBlock]int, k int) {
	tb := e.tb
	body := bo.loops[h]
	// registers defined inside the loop and used after it would be those of the last pass only
	for b := range body {
		for _, ins := range b.Instrs {
			v, ok := ins.(ssa.Value)
			if !ok {
				continue
			}
			if _, isAlloc := ins.(*ssa.Alloc); isAlloc {
				continue
			}
			if refs := v.Referrers(); refs != nil {
				for _, r := range *refs {
					if !body[r.Block()] {
						unsupported("unrolled loop %d of %s: value %s is used after the loop", loopOrd[h], fr.fn.Name(), v.Name())
					}
				}
			}
		}
	}
	if fr.unrollBack == nil {
		fr.unrollBack = map[*ssa.BasicBlock][]*State{}
	}
	exits := map[[2]*ssa.BasicBlock][]*State{}
	var exitOrder [][2]*ssa.BasicBlock
	cur := st0
	for pass := 0; pass < k; pass++ {
		fr.unrollBack[h] = []*State{}
		for _, b := range bo.order {
			if !body[b] {
				continue
			}
			var stb *State
			if b == h {
				stb = cur
			} else {
				var ins []*State
				for _, p := range b.Preds {
					if bo.back[[2]*ssa.BasicBlock{p, b}] {
						continue
					}
					ins = append(ins, fr.edge[[2]*ssa.BasicBlock{p, b}])
				}
				stb = e.mergeStates(ins)
			}
			if stb.dead || stb.cond.IsFalse() {
				for _, s := range b.Succs {
					d := stb.clone()
					d.dead = true
					if !bo.back[[2]*ssa.BasicBlock{b, s}] {
						fr.edge[[2]*ssa.BasicBlock{b, s}] = d
					}
				}
			} else {
				if _, isHead := bo.loops[b]; isHead && b != h {
					e.enterLoop(fr, stb, b, bo, loopOrd[b])
				}
				e.execBlock(fr, stb, b, bo)
			}
			for _, s := range b.Succs {
				if body[s] {
					continue
				}
				key := [2]*ssa.BasicBlock{b, s}
				if _, seen := exits[key]; !seen {
					exitOrder = append(exitOrder, key)
				}
				if es := fr.edge[key]; es != nil {
					exits[key] = append(exits[key], es)
				}
			}
		}
		backs := fr.unrollBack[h]
		if len(backs) == 0 {
			cur = st0.clone()
			cur.dead = true
			cur.cond = tb.False()
			break
		}
		cur = e.mergeStates(backs)
		if cur.dead || cur.cond.IsFalse() {
			break
		}
	}
	delete(fr.unrollBack, h)
	if !cur.dead && !cur.cond.IsFalse() {
		e.addObligation(fr, cur, "unwind", fmt.Sprintf("loop%d.unroll%d", loopOrd[h], k), tb.False(), nil)
	}
	for _, key := range exitOrder {
		fr.edge[key] = e.mergeStates(exits[key])
	}
}

func (e *Engine) mergeReturns(fr *Frame) ([]Val, *State) {
	tb := e.tb
	if len(fr.retStates) == 0 {
		// never returns
		return nil, &State{cond: tb.False(), cells: map[*Cell]*Term{}, heaps: map[string]*Term{}, clock: tb.Int(0), dead: true}
	}
	out := e.mergeStates(fr.retStates)
	n := len(fr.retVals[0])
	res := make([]Val, n)
	for i := 0; i < n; i++ {
		var acc Val
		for j := range fr.retStates {
			v := fr.retVals[j][i]
			if acc == nil {
				acc = v
				continue
			}
			at, ok1 := e.valTerm(acc)
			vt, ok2 := e.valTerm(v)
			if !ok1 || !ok2 {
				if acc == v {
					continue
				}
				unsupported("merging non-term results of %s", fr.fn.Name())
			}
			m := tb.Ite(fr.retStates[j].cond, vt, at)
			acc = e.rewrap(m, v, acc)
		}
		res[i] = acc
	}
	return res, out
}

func (e *Engine) valTerm(v Val) (*Term, bool) {
	switch x := v.(type) {
	case *Term:
		return x, true
	case *PtrVal:
		if x.Kind == KObj || x.Kind == KNil {
			return e.ptrTerm(x), true
		}
	case *FuncVal:
		return e.fnTerm(x), true
	}
	return nil, false
}

func (e *Engine) rewrap(m *Term, like ...Val) Val {
	for _, l := range like {
		if p, ok := l.(*PtrVal); ok && p.Typ != nil {
			return &PtrVal{Kind: KObj, Ref: m, Typ: p.Typ}
		}
	}
	return m
}

func (e *Engine) execBlock(fr *Frame, st *State, b *ssa.BasicBlock, bo *blockOrder) {
	tb := e.tb
	for _, ins := range b.Instrs {
		switch ins := ins.(type) {
		case *ssa.If:
			c := e.term(fr, ins.Cond)
			t := st.clone()
			t.cond = tb.And(st.cond, c)
			f := st.clone()
			f.cond = tb.And(st.cond, tb.Not(c))
			e.flow(fr, b, b.Succs[0], t, bo)
			e.flow(fr, b, b.Succs[1], f, bo)
			return
		case *ssa.Jump:
			e.flow(fr, b, b.Succs[0], st, bo)
			return
		case *ssa.Return:
			var vs []Val
			for _, r := range ins.Results {
				vs = append(vs, e.val(fr, r))
			}
			fr.retVals = append(fr.retVals, vs)
			fr.retStates = append(fr.retStates, st)
			return
		case *ssa.Panic:
			e.execPanic(fr, st, ins)
			return
		default:
			e.execInstr(fr, st, ins)
			if st.cond.IsFalse() {
				st.dead = true
			}
			if st.dead {
				// the rest of the block is unreachable
				for _, s := range b.Succs {
					if !bo.back[[2]*ssa.BasicBlock{b, s}] {
						d := st.clone()
						d.dead = true
						fr.edge[[2]*ssa.BasicBlock{b, s}] = d
					}
				}
				return
			}
		}
	}
}

func (e *Engine) execPanic(fr *Frame, st *State, ins *ssa.Panic) {
	if fr.ghost || e.nocheck {
		return
	}
	// an explicit panic must be unreachable
	key := e.curFunc + "/no-panic"
	e.safetyN[key]++
	label := fmt.Sprintf("%s#%d", fr.fn.Name(), e.safetyN[key])
	e.obls = e.appendObl(&Obligation{Name: e.curFunc + "/no-panic/" + label, Kind: "no-panic", Func: e.curFunc, Label: label,
		Cond: st.cond, Goal: e.tb.False(), NFacts: len(e.facts), Pos: e.prog.Fset.Position(ins.Pos())})
}

func (e *Engine) flow(fr *Frame, from, to *ssa.BasicBlock, st *State, bo *blockOrder) {
	if bo.back[[2]*ssa.BasicBlock{from, to}] {
		if fr.unrollBack != nil {
			if _, ok := fr.unrollBack[to]; ok {
				fr.unrollBack[to] = append(fr.unrollBack[to], st)
				return
			}
		}
		e.backEdge(fr, st, from, to)
		return
	}
	fr.edge[[2]*ssa.BasicBlock{from, to}] = st
}

// loopOrdinals maps loop headers to the source ordinal of their for/range statement.
func (e *Engine) loopOrdinals(fn *ssa.Function, bo *blockOrder) map[*ssa.BasicBlock]int {
	out := map[*ssa.BasicBlock]int{}
	if len(bo.loops) == 0 {
		return out
	}
	// body blocks in index order correspond to source loops in order
	var bodies []*ssa.BasicBlock
	for _, b := range fn.Blocks {
		switch b.Comment {
		case "for.body", "rangeindex.body", "rangeiter.body", "rangechan.body", "rangeint.body":
			bodies = append(bodies, b)
		}
	}
	for h, body := range bo.loops {
		// innermost: the body block with the smallest index that belongs to this loop and to no inner loop
		best := -1
		for k, bb := range bodies {
			if !body[bb] {
				continue
			}
			// is bb in an inner loop (a loop whose header is in body and is not h)?
			inner := false
			for h2, body2 := range bo.loops {
				if h2 != h && body[h2] && body2[bb] {
					inner = true
					break
				}
			}
			if !inner {
				best = k + 1
				break
			}
		}
		out[h] = best
	}
	return out
}

// simpleCounter: the loop headed by h tests `*x < e` (signed), and the only store to x inside the
// loop is `*x = *x + 1`.
func simpleCounter(h *ssa.BasicBlock, body map[*ssa.BasicBlock]bool, x ssa.Value) bool {
	if x == nil || len(h.Instrs) == 0 {
		return false
	}
	isLoad := func(v ssa.Value) bool {
		u, ok := v.(*ssa.UnOp)
		return ok && u.Op == token.MUL && u.X == x
	}
	ifi, ok := h.Instrs[len(h.Instrs)-1].(*ssa.If)
	if !ok {
		return false
	}
	cmp, ok := ifi.Cond.(*ssa.BinOp)
	if !ok || cmp.Op != token.LSS || !isLoad(cmp.X) {
		return false
	}
	if b, ok := cmp.X.Type().Underlying().(*types.Basic); !ok || b.Info()&types.IsUnsigned != 0 || b.Info()&types.IsInteger == 0 {
		return false
	}
	stores := 0
	blocks := []*ssa.BasicBlock{h}
	for b := range body {
		if b != h {
			blocks = append(blocks, b)
		}
	}
	for _, b := range blocks {
		for _, ins := range b.Instrs {
			st, ok := ins.(*ssa.Store)
			if !ok || st.Addr != x {
				continue
			}
			stores++
			add, ok := st.Val.(*ssa.BinOp)
			if !ok || add.Op != token.ADD || !isLoad(add.X) {
				return false
			}
			k, ok := add.Y.(*ssa.Const)
			if !ok || k.Value == nil || k.Value.ExactString() != "1" {
				return false
			}
		}
	}
	return stores == 1
}

type havocTarget struct {
	heap string
	ref  *Term
	lo   *Term // for bytes: [lo, hi) index range; nil = whole
	hi   *Term
}

func (e *Engine) enterLoop(fr *Frame, st *State, h *ssa.BasicBlock, bo *blockOrder, ord int) {
	tb := e.tb
	var spec *LoopSpec
	if fr.contract != nil {
		spec = fr.contract.Loops[ord]
	}
	if spec == nil {
		unsupported("loop %d of %s has no invariant", ord, fr.fn.Name())
	}
	// inv-init
	for _, cl := range spec.Invariants {
		g := e.evalClause(fr, st, fr.entry, cl, nil)
		e.addObligation(fr, st, "inv-init", fmt.Sprintf("loop%d.%s", ord, cl.Label), g, cl)
	}
	// havoc
	if e.havocCells[h] == nil {
		e.havocCells[h] = map[ssa.Value]bool{}
		e.havocHeaps[h] = map[string]bool{}
	}
	pre := st.clone()
	var names []string
	cellByName := map[string]*Cell{}
	for c := range st.cells {
		if c.key == nil || !e.havocCells[h][c.key] {
			continue
		}
		n := fmt.Sprintf("%s#%s", c.name, c.key.Name())
		names = append(names, n)
		cellByName[n] = c
	}
	sort.Strings(names)
	for _, n := range names {
		c := cellByName[n]
		st.cells[c] = tb.Fresh("L"+fmt.Sprint(ord)+"_"+c.name, e.sortOf(c.typ))
		e.assumeWF(fr, st, st.cells[c], c.typ)
		if st.cells[c].Sort == SBV64 && simpleCounter(h, bo.loops[h], c.key) {
			// `for i := c; i < e; i++` with no other assignment to i in the loop: i never goes below
			// its value at loop entry (i+1 cannot wrap, because i < e held in the same iteration)
			e.addFact(st, tb.BVCmp("bvsge", st.cells[c], pre.cells[c]))
		}
		if c.name == "rangeindex" && st.cells[c].Sort == SBV64 {
			// the hidden index of a range loop starts at -1 and is only ever incremented by one
			// while it is below the (non-negative, < 2^48) length: it never goes below -1
			e.addFact(st, tb.And(tb.BVCmp("bvsge", st.cells[c], tb.BV(-1, 64)), tb.BVCmp("bvsle", st.cells[c], tb.BV(1<<48, 64))))
		}
	}
	var targets []*havocTarget
	if spec.HasAssigns {
		// items are processed in order, each evaluated in the state havocked so far (so that
		// "*w, bytes(w.raw)" means: the region w.raw denotes at an arbitrary iteration)
		for _, a := range spec.Assigns {
			ts := e.assignTargets(fr, st, a, nil)
			targets = append(targets, ts...)
			byHeap := map[string]bool{}
			for _, t := range ts {
				byHeap[t.heap] = true
			}
			var hn []string
			for n := range byHeap {
				hn = append(hn, n)
			}
			sort.Strings(hn)
			for _, n := range hn {
				if e.havocHeaps[h][n] {
					e.havocHeap(fr, st, pre, n, ts, true, fmt.Sprintf("L%d", ord))
				}
			}
		}
	} else {
		var hn []string
		for n := range e.havocHeaps[h] {
			hn = append(hn, n)
		}
		sort.Strings(hn)
		for _, n := range hn {
			e.havocHeap(fr, st, pre, n, nil, false, fmt.Sprintf("L%d", ord))
		}
	}
	if e.havocClock[h] {
		nc := tb.Fresh("clk", SInt)
		e.addFact(st, tb.IntCmp(">=", nc, pre.clock))
		st.clock = nc
	}
	subst := map[*Term]*Term{}
	var invTerms []*Term
	for _, cl := range spec.Invariants {
		g := e.evalClause(fr, st, fr.entry, cl, nil)
		e.addFactQ(st, g)
		invTerms = append(invTerms, g)
	}
	for k, v := range e.propagateEqualities(st, tb.And(invTerms...)) {
		subst[k] = v
	}
	if len(subst) > 0 {
		// make the whole head state (and the recorded havoc targets / region frames) use the defining terms
		for pass := 0; pass < 2; pass++ {
			for k, v := range subst {
				subst[k] = tb.Subst(v, subst)
			}
		}
		e.substState(st, subst)
		for _, t := range targets {
			t.ref = tb.Subst(t.ref, subst)
			if t.lo != nil {
				t.lo = tb.Subst(t.lo, subst)
				t.hi = tb.Subst(t.hi, subst)
			}
		}
		for _, rf := range e.regionFrame {
			rf.base = tb.Subst(rf.base, subst)
			rf.lo = tb.Subst(rf.lo, subst)
			rf.hi = tb.Subst(rf.hi, subst)
		}
	}
	lr := &loopRec{head: st.clone(), ord: ord, spec: spec, targets: targets}
	if spec.Decreases != nil {
		lr.measure = e.evalClause(fr, st, fr.entry, spec.Decreases, nil)
	}
	fr.loopHead[h] = lr
}

// havocHeap replaces heap n in st. With targets, only the listed locations are havocked.
func (e *Engine) havocHeap(fr *Frame, st, pre *State, n string, targets []*havocTarget, targeted bool, hint string) {
	tb := e.tb
	sortN := e.heapSorts[n]
	if sortN == "" {
		return
	}
	cur := e.heap(st, n, sortN)
	if !targeted {
		st.heaps[n] = tb.Fresh(hint+"_"+n, sortN)
		return
	}
	_, elemSort, _ := sortN.ArrayParts()
	h := cur
	for _, t := range targets {
		if t.heap != n {
			continue
		}
		fv := tb.Fresh(hint+"_"+n+"_v", elemSort)
		e.havocConst[fv] = true
		e.havocLoc[fv] = &havocTarget{heap: n, ref: t.ref}
		switch elemSort {
		case SSlice:
			e.addFact(st, e.wfSlice(st, fv))
		case SStr:
			e.addFact(st, e.wfStr(st, fv))
		case SRef:
			e.addFact(st, tb.IntCmp("<", tb.RootID(fv), st.clock))
		case SIface:
			e.addFact(st, tb.IntCmp("<", tb.RootID(tb.Acc(fv, 1)), st.clock))
			e.addFact(st, tb.Implies(tb.Eq(tb.Acc(fv, 0), tb.Int(0)), tb.Eq(tb.Acc(fv, 1), tb.RefNil())))
		}
		prev := tb.Select(cur, t.ref)
		if e.havocConst[prev] {
			e.seq++
			e.supersededAt[prev] = e.seq
			if os.Getenv("GOVC_DEBUG") != "" {
				fmt.Fprintf(os.Stderr, "SUPERSEDE %s by %s at %d (hint %s)\n", prev.Name, fv.Name, len(e.facts), hint)
			}
		}
		if t.lo != nil {
			// bytes range: outside [lo,hi) unchanged
			k := tb.BoundVar("k", SBV64)
			in := tb.And(tb.BVCmp("bvsle", t.lo, k), tb.BVCmp("bvslt", k, t.hi))
			_, es, _ := elemSort.ArrayParts()
			e.addFactK(st, tb.Forall([]*Term{k}, tb.Implies(tb.Not(in), tb.Eq(tb.Select(fv, k), tb.Select(prev, k))), tb.mk("select", es, "", nil, fv, k)), "hframe")
			e.regionFrame[fv] = &regionFrameRec{base: prev, lo: t.lo, hi: t.hi}
		}
		h = tb.Store(h, t.ref, fv)
	}
	st.heaps[n] = h
}

func (e *Engine) assumeWF(fr *Frame, st *State, v *Term, t types.Type) {
	switch t.Underlying().(type) {
	case *types.Slice:
		e.addFact(st, e.wfSlice(st, v))
	case *types.Basic:
		if v.Sort == SStr {
			e.addFact(st, e.wfStr(st, v))
		}
	case *types.Pointer:
		e.addFact(st, e.tb.IntCmp("<", e.tb.RootID(v), st.clock))
	case *types.Interface:
		e.addFact(st, e.tb.IntCmp("<", e.tb.RootID(e.tb.Acc(v, 1)), st.clock))
		e.addFact(st, e.tb.Implies(e.tb.Eq(e.tb.Acc(v, 0), e.tb.Int(0)), e.tb.Eq(e.tb.Acc(v, 1), e.tb.RefNil())))
		e.addFact(st, e.tb.Or(e.tb.Eq(e.tb.Acc(v, 1), e.tb.RefNil()), e.tb.mk("(_ is lit)", SBool, "", nil, e.tb.Acc(v, 1)), e.tb.IntCmp(">=", e.tb.RootID(e.tb.Acc(v, 1)), e.tb.Int(0)), e.isBoxRef(e.tb.Acc(v, 1))))
	case *types.Struct:
		u := t.Underlying().(*types.Struct)
		for i := 0; i < u.NumFields(); i++ {
			e.assumeWF(fr, st, e.tb.Acc(v, i), u.Field(i).Type())
		}
	}
}

func (e *Engine) backEdge(fr *Frame, st *State, from, h *ssa.BasicBlock) {
	tb := e.tb
	lr := fr.loopHead[h]
	if lr == nil {
		return // header was unreachable
	}
	// discovery of modified cells / heaps
	for c, v := range st.cells {
		hv, ok := lr.head.cells[c]
		if !ok {
			continue // allocated inside the loop body: initialised on every iteration
		}
		if hv != v && c.key != nil && !e.havocCells[h][c.key] {
			e.havocCells[h][c.key] = true
			e.restart = true
		}
	}
	for n, v := range st.heaps {
		hv, ok := lr.head.heaps[n]
		if !ok {
			hv = tb.Const("h0_"+sanitize(n), v.Sort)
		}
		if hv != v && !e.havocHeaps[h][n] {
			e.havocHeaps[h][n] = true
			e.restart = true
		}
	}
	if st.clock != lr.head.clock && !e.havocClock[h] {
		e.havocClock[h] = true
		e.restart = true
	}
	if e.restart {
		return
	}
	lr.backEdges++
	beSuffix := ""
	if lr.backEdges > 1 {
		beSuffix = fmt.Sprintf("~%d", lr.backEdges)
	}
	for _, cl := range lr.spec.Invariants {
		g := e.evalClause(fr, st, fr.entry, cl, nil)
		var sp *SplitHint
		for _, s := range lr.spec.Splits {
			if s.Label == cl.Label {
				sp = s
			}
		}
		if sp != nil && g.Op == "forall" && len(g.Bnd) == 1 {
			// proof hint: case split of the quantified index on base, base+1, ..., base+count-1 and the rest
			base := e.evalClause(fr, st, fr.entry, sp.Base, nil)
			k := g.Bnd[0]
			for c := 0; c < sp.Count; c++ {
				inst := tb.Subst(g.Args[0], map[*Term]*Term{k: tb.BVBin("bvadd", base, tb.BV(int64(c), 64))})
				e.addObligation(fr, st, "inv-keep", fmt.Sprintf("loop%d.%s#%d", lr.ord, cl.Label, c), inst, cl)
			}
			lo := tb.Fresh("sk_lo", SBV64)
			e.addObligation(fr, st, "inv-keep", fmt.Sprintf("loop%d.%s#below", lr.ord, cl.Label),
				tb.Implies(tb.BVCmp("bvslt", lo, base), tb.Subst(g.Args[0], map[*Term]*Term{k: lo})), cl)
			hi := tb.Fresh("sk_hi", SBV64)
			e.addObligation(fr, st, "inv-keep", fmt.Sprintf("loop%d.%s#above", lr.ord, cl.Label),
				tb.Implies(tb.BVCmp("bvsge", hi, tb.BVBin("bvadd", base, tb.BV(int64(sp.Count), 64))), tb.Subst(g.Args[0], map[*Term]*Term{k: hi})), cl)
			continue
		}
		e.addObligation(fr, st, "inv-keep", fmt.Sprintf("loop%d.%s%s", lr.ord, cl.Label, beSuffix), g, cl)
	}
	if lr.spec.Decreases != nil {
		m := e.evalClause(fr, st, fr.entry, lr.spec.Decreases, nil)
		g := tb.And(tb.BVCmp("bvsle", tb.BV(0, 64), lr.measure), tb.BVCmp("bvslt", m, lr.measure))
		e.addObligation(fr, st, "dec", fmt.Sprintf("loop%d%s", lr.ord, beSuffix), g, lr.spec.Decreases)
	}
	if lr.spec.HasAssigns {
		e.frameObligations(fr, st, lr.head, lr.targets, fmt.Sprintf("loop%d%s", lr.ord, beSuffix), lr.head.clock)
	}
}

func (e *Engine) addObligation(fr *Frame, st *State, kind, label string, goal *Term, cl *Clause) {
	if fr.ghost {
		return
	}
	if kind == "post" || kind == "inv-keep" || kind == "inv-init" {
		goal = e.existsHints(fr, st, goal)
	}
	o := &Obligation{Name: e.curFunc + "/" + kind + "/" + label, Kind: kind, Func: e.curFunc, Label: label, Cond: st.cond, Goal: goal, NFacts: len(e.facts), Clause: cl}
	if cl != nil {
		o.Pos = token.Position{Filename: cl.File, Line: cl.Line}
		o.Unproved = cl.Unproved
	}
	e.obls = e.appendObl(o)
}

// frameObligations: every location not among targets is unchanged between base and st.
func (e *Engine) frameObligations(fr *Frame, st, base *State, targets []*havocTarget, label string, clock0 *Term) {
	tb := e.tb
	var names []string
	for n := range st.heaps {
		names = append(names, n)
	}
	sort.Strings(names)
	for _, n := range names {
		cur := st.heaps[n]
		old, ok := base.heaps[n]
		if !ok {
			old = tb.Const("h0_"+sanitize(n), cur.Sort)
		}
		if cur == old {
			continue
		}
		x := tb.Fresh("fr_x", SRef)
		conds := []*Term{tb.IntCmp("<", tb.RootID(x), clock0), tb.Not(tb.Eq(x, tb.RefNil()))}
		var ranged []*havocTarget
		for _, t := range targets {
			if t.heap != n {
				continue
			}
			if t.lo != nil {
				ranged = append(ranged, t)
				continue
			}
			conds = append(conds, tb.Not(tb.Eq(x, t.ref)))
		}
		if sg, ok := e.syntacticFrame(cur, old, targets, n, clock0); ok {
			if sg.Op == "and" && len(sg.Args) > 4 {
				// many written locations: one obligation per group of four keeps each query small
				for i := 0; i < len(sg.Args); i += 4 {
					j := i + 4
					if j > len(sg.Args) {
						j = len(sg.Args)
					}
					e.addObligation(fr, st, "frame", fmt.Sprintf("%s.%s#%d", label, heapLabel(n), i/4), tb.And(sg.Args[i:j]...), nil)
				}
				continue
			}
			e.addObligation(fr, st, "frame", label+"."+heapLabel(n), sg, nil)
			continue
		}
		var goal *Term
		if len(ranged) == 0 {
			goal = tb.Implies(tb.And(conds...), tb.Eq(tb.Select(cur, x), tb.Select(old, x)))
		} else {
			k := tb.Fresh("fr_k", SBV64)
			var outside []*Term
			for _, t := range ranged {
				in := tb.And(tb.Eq(x, t.ref), tb.BVCmp("bvsle", t.lo, k), tb.BVCmp("bvslt", k, t.hi))
				outside = append(outside, tb.Not(in))
			}
			goal = tb.Implies(tb.And(append(conds, outside...)...), tb.Eq(tb.Select(tb.Select(cur, x), k), tb.Select(tb.Select(old, x), k)))
		}
		e.addObligation(fr, st, "frame", label+"."+heapLabel(n), goal, nil)
	}
}

func heapLabel(n string) string {
	n = strings.ReplaceAll(n, "(_ BitVec ", "bv")
	n = strings.ReplaceAll(n, ")", "")
	n = strings.ReplaceAll(n, "(", "")
	n = strings.ReplaceAll(n, " ", "_")
	return n
}

func (e *Engine) runDefers(fr *Frame, st *State, ins ssa.Instruction) {
	tb := e.tb
	ds := fr.defers
	for i := len(ds) - 1; i >= 0; i-- {
		d := ds[i]
		// execute under guard d.cond
		g := st.clone()
		g.cond = tb.And(st.cond, d.cond)
		if g.cond.IsFalse() {
			continue
		}
		e.callValue(fr, g, ins, d.call, d.fnv, d.args)
		if g.cond == st.cond {
			*st = *g
			continue
		}
		// merge g (guard true) with st (guard false)
		ng := st.clone()
		ng.cond = tb.And(st.cond, tb.Not(d.cond))
		condSave := st.cond
		m := e.mergeStates([]*State{ng, g})
		*st = *m
		st.cond = condSave
	}
}


// box maps an immutable non-pointer value stored in an interface to a reference that is a
// function of the value (so interface equality is value equality); unbox is its inverse.
func (e *Engine) box(st *State, v *Term) *Term {
	tb := e.tb
	sn := sanitize(string(v.Sort))
	tb.DeclareUF("box_"+sn, "("+string(v.Sort)+") Ref")
	tb.DeclareUF("unbox_"+sn, "(Ref) "+string(v.Sort))
	b := tb.App("box_"+sn, SRef, v)
	if !v.open {
		e.addGlobalFact(tb.Eq(tb.App("unbox_"+sn, v.Sort, b), v))
		e.addGlobalFact(tb.Not(tb.Eq(b, tb.RefNil())))
	}
	return b
}

func (e *Engine) unbox(ref *Term, sort Sort) *Term {
	tb := e.tb
	sn := sanitize(string(sort))
	tb.DeclareUF("box_"+sn, "("+string(sort)+") Ref")
	tb.DeclareUF("unbox_"+sn, "(Ref) "+string(sort))
	if ref.Op == "app" && ref.Name == "box_"+sn {
		return ref.Args[0]
	}
	return tb.App("unbox_"+sn, sort, ref)
}


// litFactsFor returns the content facts of the string literals mentioned in the given terms.
func (e *Engine) litFactsFor(ts []*Term) []*Term {
	used := map[int]bool{}
	seen := map[*Term]bool{}
	var rec func(t *Term)
	rec = func(t *Term) {
		if seen[t] {
			return
		}
		seen[t] = true
		if t.Op == "ctor" && t.Name == "lit" && t.Args[0].Op == "intlit" {
			used[int(t.Args[0].Val.Int64())] = true
		}
		for _, a := range t.Args {
			rec(a)
		}
	}
	for _, t := range ts {
		rec(t)
	}
	var out []*Term
	lit := e.tb.App("LIT", ArraySort(SRef, SBytes))
	for i, s := range e.strLitList {
		if !used[i+1] {
			continue
		}
		arr := e.tb.Select(lit, e.tb.RefLit(i+1))
		for j := 0; j < len(s); j++ {
			out = append(out, e.tb.Eq(e.tb.mk("select", SBV8, "", nil, arr, e.tb.BV(int64(j), 64)), e.tb.BV(int64(s[j]), 8)))
		}
	}
	return out
}


// valueEq is Go's == on comparable values: arrays are compared on their index range only.
func (e *Engine) valueEq(fr *Frame, st *State, a, b *Term, t types.Type) *Term {
	tb := e.tb
	switch u := t.Underlying().(type) {
	case *types.Struct:
		var cs []*Term
		for i := 0; i < u.NumFields(); i++ {
			cs = append(cs, e.valueEq(fr, st, tb.Acc(a, i), tb.Acc(b, i), u.Field(i).Type()))
		}
		return tb.And(cs...)
	case *types.Array:
		if isAggregate(u.Elem()) {
			if u.Len() > 16 {
				unsupported("comparison of large arrays of aggregates")
			}
			var cs []*Term
			for i := int64(0); i < u.Len(); i++ {
				cs = append(cs, e.valueEq(fr, st, tb.Select(a, tb.BV(i, 64)), tb.Select(b, tb.BV(i, 64)), u.Elem()))
			}
			return tb.And(cs...)
		}
		return e.arrayEq(a, b, u)
	case *types.Basic:
		if u.Info()&types.IsString != 0 {
			return e.strEq(fr, st, a, b)
		}
	}
	return tb.Eq(a, b)
}


// syntacticFrame derives a sufficient, array-free condition for "cur differs from base only at the
// target locations" from the store/ite structure of the heap term. ok=false: structure unknown.
func (e *Engine) syntacticFrame(cur, base *Term, targets []*havocTarget, heap string, clock0 *Term) (*Term, bool) {
	tb := e.tb
	allowedRef := func(ref *Term) *Term { // ref may be written at all (whole object / any index)
		var alts []*Term
		if tb.isNewRef(ref) {
			return tb.True()
		}
		if !tb.IsOldRef(ref) {
			alts = append(alts, tb.IntCmp(">=", tb.RootID(ref), clock0))
		}
		// no object lives at the nil reference: a "write" there is never executed (it would panic)
		alts = append(alts, tb.Eq(ref, tb.RefNil()))
		for _, t := range targets {
			if t.heap == heap && t.lo == nil {
				alts = append(alts, tb.Eq(ref, t.ref))
			}
		}
		return tb.Or(alts...)
	}
	allowedIdx := func(ref, idx *Term) *Term {
		alts := []*Term{allowedRef(ref)}
		for _, t := range targets {
			if t.heap == heap && t.lo != nil {
				alts = append(alts, tb.And(tb.Eq(ref, t.ref), tb.BVCmp("bvsle", t.lo, idx), tb.BVCmp("bvslt", idx, t.hi)))
			}
		}
		return tb.Or(alts...)
	}
	allowedRange := func(ref, lo, hi *Term) *Term {
		alts := []*Term{allowedRef(ref), tb.BVCmp("bvsge", lo, hi)}
		for _, t := range targets {
			if t.heap == heap && t.lo != nil {
				alts = append(alts, tb.And(tb.Eq(ref, t.ref), tb.BVCmp("bvsle", t.lo, lo), tb.BVCmp("bvsle", hi, t.hi)))
			}
		}
		return tb.Or(alts...)
	}
	var region func(arr, basearr, ref *Term, depth int) (*Term, bool)
	region = func(arr, basearr, ref *Term, depth int) (*Term, bool) {
		if arr == basearr {
			return tb.True(), true
		}
		if depth > 400 {
			return nil, false
		}
		switch {
		case arr.Op == "store":
			r, ok := region(arr.Args[0], basearr, ref, depth+1)
			if !ok {
				return nil, false
			}
			if arr.Args[1].Sort != SBV64 {
				return nil, false
			}
			return tb.And(r, allowedIdx(ref, arr.Args[1])), true
		case arr.Op == "ite":
			a, ok1 := region(arr.Args[1], basearr, ref, depth+1)
			b, ok2 := region(arr.Args[2], basearr, ref, depth+1)
			if !ok1 || !ok2 {
				return nil, false
			}
			return tb.And(tb.Implies(arr.Args[0], a), tb.Implies(tb.Not(arr.Args[0]), b)), true
		case arr.Op == "constarr":
			return allowedRef(ref), true
		}
		if rf, ok := e.regionFrame[arr]; ok {
			r, ok := region(rf.base, basearr, ref, depth+1)
			if !ok {
				return nil, false
			}
			return tb.And(r, allowedRange(ref, rf.lo, rf.hi)), true
		}
		// an unrelated array: only fine if the whole region may be written
		if os.Getenv("GOVC_DEBUG") != "" {
			fmt.Fprintf(os.Stderr, "FRAME-UNRELATED heap=%s ref=%s arr=%s base=%s\n", heap, tb.Show(ref), tb.Show(arr), tb.Show(basearr))
		}
		return allowedRef(ref), true
	}
	// the chain of base: terms reachable through store bases
	baseChain := map[*Term]bool{}
	for b := base; ; b = b.Args[0] {
		baseChain[b] = true
		if b.Op != "store" {
			break
		}
	}
	var heapLevel func(h *Term, depth int) (*Term, bool)
	heapLevel = func(h *Term, depth int) (*Term, bool) {
		if h == base {
			return tb.True(), true
		}
		if baseChain[h] && h != base {
			// h is a proper ancestor of base: the stores base adds on top of h must all be
			// overwritten by cur; checked by the caller through region comparison with select(base, ref)
			return tb.True(), true
		}
		if depth > 400 {
			return nil, false
		}
		switch h.Op {
		case "store":
			inner, ok := heapLevel(h.Args[0], depth+1)
			if !ok {
				return nil, false
			}
			ref, val := h.Args[1], h.Args[2]
			if _, _, isArr := val.Sort.ArrayParts(); isArr {
				r, ok := region(val, tb.Select(base, ref), ref, 0)
				if !ok {
					return nil, false
				}
				return tb.And(inner, r), true
			}
			return tb.And(inner, allowedRef(ref)), true
		case "ite":
			a, ok1 := heapLevel(h.Args[1], depth+1)
			b, ok2 := heapLevel(h.Args[2], depth+1)
			if !ok1 || !ok2 {
				return nil, false
			}
			return tb.And(tb.Implies(h.Args[0], a), tb.Implies(tb.Not(h.Args[0]), b)), true
		}
		return nil, false
	}
	g, ok := heapLevel(cur, 0)
	if !ok {
		return nil, false
	}
	// every store that base has on top of the common ancestor must be syntactically overwritten in cur
	curRefs := map[*Term]bool{}
	common := cur
	for common.Op == "store" && !baseChain[common] {
		curRefs[common.Args[1]] = true
		common = common.Args[0]
	}
	if cur.Op == "ite" {
		return g, true // ite structure: handled recursively against base itself
	}
	for b := base; b != common; b = b.Args[0] {
		if b.Op != "store" || !curRefs[b.Args[1]] {
			return nil, false
		}
	}
	return g, true
}


func (e *Engine) appendObl(o *Obligation) []*Obligation {
	e.seq++
	o.Seq = e.seq
	return append(e.obls, o)
}


// isBoxRef: placeholder for "reference of a boxed value" (always allowed).
func (e *Engine) isBoxRef(r *Term) *Term { return e.tb.True() }


// smallUpperBound finds a syntactic upper bound (<= 32) of a length term built from literals, ite
// (min) and known small quantities; 0 if none.
func (e *Engine) smallUpperBound(n *Term) int64 {
	switch n.Op {
	case "bvlit":
		if n.Val.IsInt64() && n.Val.Int64() >= 0 && n.Val.Int64() <= 32 {
			return n.Val.Int64()
		}
		return 0
	case "ite":
		// min(a, b) is ite(a < b, a, b): bounded if either branch is bounded and the condition is the comparison
		c := n.Args[0]
		a, b := n.Args[1], n.Args[2]
		ua, ub := e.smallUpperBound(a), e.smallUpperBound(b)
		if c.Op == "bvslt" && c.Args[0] == a && c.Args[1] == b {
			if ua > 0 && (ub == 0 || ua < ub) {
				return ua
			}
			if ub > 0 {
				return ub
			}
			if a.Op == "bvlit" || b.Op == "bvlit" {
				return 0
			}
		}
		if ua > 0 && ub > 0 {
			if ua > ub {
				return ua
			}
			return ub
		}
		if (a.Op == "bvlit" && a.Val.Sign() == 0 && ub > 0) {
			return ub
		}
		if (b.Op == "bvlit" && b.Val.Sign() == 0 && ua > 0) {
			return ua
		}
	case "bvsub":
		// lit - x with x >= 0 unknown: not bounded syntactically
	}
	return 0
}


// propagateEqualities: top-level conjuncts of an assumed invariant of the form field-path(X) == t, where
// X is the fresh value of a havocked cell and t does not mention X, are substituted into the cell so
// that later terms are built from t directly (the equality itself stays among the facts).
func (e *Engine) propagateEqualities(st *State, g *Term) map[*Term]*Term {
	tb := e.tb
	applied := map[*Term]*Term{}
	// map fresh cell constants to their cells
	cellOf := map[*Term]*Cell{}
	for c, v := range st.cells {
		if v.Op == "const" && strings.HasPrefix(v.Name, "L") {
			cellOf[v] = c
		}
	}
	mentions := func(t, x *Term) bool {
		found := false
		vis := map[*Term]bool{}
		var rec func(t *Term)
		rec = func(t *Term) {
			if found || vis[t] {
				return
			}
			vis[t] = true
			if t == x {
				found = true
				return
			}
			for _, a := range t.Args {
				rec(a)
			}
		}
		rec(t)
		return found
	}
	eqs := e.equalitiesOf([]*Term{g})
	isFreshRoot := func(t *Term) bool {
		if t.Op != "const" {
			return false
		}
		if _, ok := cellOf[t]; ok {
			return true
		}
		_, ok := e.havocLoc[t]
		return ok
	}
	sort.SliceStable(eqs, func(i, j int) bool {
		wi := isFreshRoot(eqs[i][0]) || isFreshRoot(eqs[i][1])
		wj := isFreshRoot(eqs[j][0]) || isFreshRoot(eqs[j][1])
		return wi && !wj
	})
	for _, pr := range eqs {
		lhs, rhs := pr[0], pr[1]
		if os.Getenv("GOVC_DEBUG") != "" {
			fmt.Fprintf(os.Stderr, "PROP-EQ %s == %s\n", tb.Show(lhs), tb.Show(rhs))
		}
		// when both sides are field paths of fresh values, rewrite the younger one
		rootOf := func(t *Term) *Term {
			for t.Op == "acc" {
				t = t.Args[0]
			}
			return t
		}
		if rl, rr := rootOf(lhs), rootOf(rhs); rl.Op == "const" && rr.Op == "const" && rl.id < rr.id {
			if _, ok := e.havocLoc[rr]; ok {
				lhs, rhs = rhs, lhs
			} else if _, ok := cellOf[rr]; ok {
				lhs, rhs = rhs, lhs
			}
		}
		for pass := 0; pass < 2; pass++ {
			var path []int
			x := lhs
			ok := true
			for x.Op == "acc" {
				d := tb.dtDecl[string(x.Args[0].Sort)]
				idx := -1
				for i, f := range d.Fields {
					if f.Name == x.Name {
						idx = i
					}
				}
				if idx < 0 {
					ok = false
					break
				}
				path = append([]int{idx}, path...)
				x = x.Args[0]
			}
			done := false
			if cell, isCell := cellOf[x]; ok && isCell && !mentions(rhs, x) {
				cur := st.cells[cell]
				if len(path) > 0 || cur == x {
					st.cells[cell] = e.withPath(cur, path, rhs)
					done = true
				}
			} else if loc, isHeap := e.havocLoc[x]; ok && isHeap && !mentions(rhs, x) {
				if h := st.heaps[loc.heap]; h != nil {
					cur := tb.Select(h, loc.ref)
					if cur == x || (cur.Op == "ctor" && mentions(cur, x)) {
						st.heaps[loc.heap] = tb.Store(h, loc.ref, e.withPath(cur, path, rhs))
						done = true
					}
				}
			}
			if done {
				applied[lhs] = rhs
				break
			}
			lhs, rhs = rhs, lhs
		}
	}
	return applied
}

// substState applies a term substitution to every cell and heap of the state.
func (e *Engine) substState(st *State, m map[*Term]*Term) {
	if len(m) == 0 {
		return
	}
	for c, v := range st.cells {
		st.cells[c] = e.tb.Subst(v, m)
	}
	for n, h := range st.heaps {
		st.heaps[n] = e.tb.Subst(h, m)
	}
}

func (e *Engine) withPath(v *Term, path []int, nv *Term) *Term {
	if len(path) == 0 {
		return nv
	}
	return e.tb.With(v, path[0], e.withPath(e.tb.Acc(v, path[0]), path[1:], nv))
}


// impliedLiterals returns literals (term, polarity) that follow from assuming g, by flattening
// conjunctions and unit propagation over negated conjunctions / implications (the shape Go's && and
// ==> chains take after translation).
func (e *Engine) impliedLiterals(gs []*Term) map[*Term]bool {
	tb := e.tb
	known := map[*Term]bool{}
	var pending []*Term
	var atoms func(t *Term, pos bool)
	atoms = func(t *Term, pos bool) {
		switch {
		case t.Op == "and" && pos:
			for _, a := range t.Args {
				atoms(a, true)
			}
		case t.Op == "or" && !pos:
			for _, a := range t.Args {
				atoms(a, false)
			}
		case t.Op == "not":
			atoms(t.Args[0], !pos)
		case t.Op == "and" && !pos:
			pending = append(pending, t)
		case t.Op == "or" && pos:
			var neg []*Term
			for _, a := range t.Args {
				neg = append(neg, tb.Not(a))
			}
			pending = append(pending, tb.mk("and", SBool, "", nil, neg...))
		case t.Op == "=>" && pos:
			pending = append(pending, tb.mk("and", SBool, "", nil, t.Args[0], tb.Not(t.Args[1])))
		case t.IsLit() || t.Op == "forall" || t.Op == "=>":
		default:
			known[t] = pos
		}
	}
	for _, g := range gs {
		atoms(g, true)
	}
	lit := func(x *Term) (*Term, bool) {
		if x.Op == "not" {
			return x.Args[0], false
		}
		return x, true
	}
	for changed := true; changed; {
		changed = false
		var rest []*Term
		for _, n := range pending {
			var open []*Term
			sat := false
			for _, x := range n.Args {
				y, pos := lit(x)
				if v, ok := known[y]; ok {
					if v != pos {
						sat = true
					}
					continue
				}
				if y.Op == "and" && pos {
					all := true
					for _, z := range y.Args {
						zz, zp := lit(z)
						if v, ok := known[zz]; !ok || v != zp {
							all = false
						}
					}
					if all {
						continue
					}
				}
				open = append(open, x)
			}
			if sat {
				continue
			}
			if len(open) == 1 {
				atoms(open[0], false)
				changed = true
				continue
			}
			rest = append(rest, n)
		}
		pending = rest
	}
	return known
}

// equalitiesOf lists the (lhs, rhs) pairs of the equalities (and boolean accessor literals) implied by gs.
func (e *Engine) equalitiesOf(gs []*Term) [][2]*Term {
	tb := e.tb
	var out [][2]*Term
	lits := e.impliedLiterals(gs)
	var keys []*Term
	for t := range lits {
		keys = append(keys, t)
	}
	sort.Slice(keys, func(i, j int) bool { return keys[i].id < keys[j].id })
	for _, t := range keys {
		v := lits[t]
		switch {
		case t.Op == "=" && v:
			out = append(out, [2]*Term{t.Args[0], t.Args[1]})
		case t.Op == "acc" && t.Sort == SBool:
			out = append(out, [2]*Term{t, tb.Bool(v)})
		}
	}
	return out
}

// closureEscapes: the closure value is used other than as the callee or a direct argument of a
// call (or defer/go).
func closureEscapes(mc *ssa.MakeClosure) bool {
	refs := mc.Referrers()
	if refs == nil {
		return false
	}
	for _, r := range *refs {
		switch x := r.(type) {
		case ssa.CallInstruction:
			_ = x
		case *ssa.DebugRef:
		default:
			return true
		}
	}
	return false
}

package main

// Quantifier instantiation by the engine: the "QF variant" of a query replaces every universally
// quantified assumption by its instances at index terms taken from the goal. The instances are
// implied by the assumption, so an unsat answer on the variant is a proof; a sat answer on the
// variant means nothing (the full query decides).

import (
	"fmt"
	"os"
	"sort"
)

// collectIndexTerms gathers BV64 terms used as array indices plus skolem constants.
func (e *Engine) collectIndexTerms(ts []*Term) []*Term {
	seen := map[*Term]bool{}
	var out []*Term
	add := func(t *Term) {
		if t.Sort == SBV64 && !t.open && !seen[t] {
			seen[t] = true
			out = append(out, t)
		}
	}
	vis := map[*Term]bool{}
	var rec func(t *Term)
	rec = func(t *Term) {
		if vis[t] {
			return
		}
		vis[t] = true
		if t.Op == "forall" {
			return
		}
		if t.Op == "select" && t.Args[1].Sort == SBV64 {
			add(t.Args[1])
		}
		if t.Op == "const" && t.Sort == SBV64 && (len(t.Name) > 3 && (t.Name[:3] == "sk_" || t.Name[:3] == "fr_")) {
			add(t)
		}
		for _, a := range t.Args {
			rec(a)
		}
	}
	for _, t := range ts {
		rec(t)
	}
	sort.Slice(out, func(i, j int) bool { return out[i].id < out[j].id })
	return out
}

// instantiate returns instances of the quantified parts of fact f at the candidate index terms,
// and the quantifier-free remainder. ok=false if f has quantifiers that could not be handled.
func (e *Engine) instantiate(f *Term, cands []*Term, limit int) []*Term {
	tb := e.tb
	switch f.Op {
	case "and":
		var out []*Term
		for _, a := range f.Args {
			out = append(out, e.instantiate(a, cands, limit)...)
		}
		return out
	case "=>":
		if hasQuant(f.Args[0]) {
			return nil
		}
		var out []*Term
		for _, x := range e.instantiate(f.Args[1], cands, limit) {
			out = append(out, tb.Implies(f.Args[0], x))
		}
		return out
	case "or":
		// exactly one disjunct carries the (positive) quantifier
		qi := -1
		for i, a := range f.Args {
			if hasQuant(a) {
				if qi >= 0 {
					return nil
				}
				qi = i
			}
		}
		if qi < 0 {
			return []*Term{f}
		}
		var rest []*Term
		for i, a := range f.Args {
			if i != qi {
				rest = append(rest, a)
			}
		}
		var out []*Term
		for _, x := range e.instantiate(f.Args[qi], cands, limit) {
			out = append(out, tb.Or(append(append([]*Term{}, rest...), x)...))
		}
		return out
	case "forall":
		if len(f.Bnd) != 1 || f.Bnd[0].Sort != SBV64 {
			return nil
		}
		k := f.Bnd[0]
		// index shapes in which k occurs
		type shape struct{ off *Term } // index = off + k (off nil: index = k)
		var shapes []shape
		seenOff := map[*Term]bool{}
		direct := false
		vis := map[*Term]bool{}
		var rec func(t *Term)
		rec = func(t *Term) {
			if vis[t] || !t.open {
				return
			}
			vis[t] = true
			if t.Op == "select" {
				idx := t.Args[1]
				if idx == k {
					direct = true
				} else if idx.open && idx.Sort == k.Sort {
					// index = off + k with off free of k (decided on the normalised linear form)
					off := tb.BVBin("bvsub", idx, k)
					if !off.open && !seenOff[off] {
						seenOff[off] = true
						shapes = append(shapes, shape{off})
					}
				}
			}
			for _, a := range t.Args {
				rec(a)
			}
		}
		rec(f.Args[0])
		vals := map[*Term]bool{}
		var order []*Term
		addVal := func(v *Term) {
			if !vals[v] && len(order) < limit {
				vals[v] = true
				order = append(order, v)
			}
		}
		for _, c := range cands {
			if direct || len(shapes) == 0 {
				addVal(c)
			}
		}
		for _, sh := range shapes {
			for _, c := range cands {
				addVal(tb.BVBin("bvsub", c, sh.off))
			}
		}
		if !direct && len(shapes) > 0 {
			for _, c := range cands {
				if c.Op == "const" {
					addVal(c)
				}
			}
		}
		var out []*Term
		for _, v := range order {
			inst := tb.Subst(f.Args[0], map[*Term]*Term{k: v})
			if inst.open {
				continue
			}
			out = append(out, e.instantiate(inst, cands, limit)...)
		}
		return out
	}
	if hasQuant(f) {
		return nil
	}
	return []*Term{f}
}

func hasQuant(t *Term) bool {
	vis := map[*Term]bool{}
	var rec func(t *Term) bool
	rec = func(t *Term) bool {
		if vis[t] {
			return false
		}
		vis[t] = true
		if t.Op == "forall" {
			return true
		}
		for _, a := range t.Args {
			if rec(a) {
				return true
			}
		}
		return false
	}
	return rec(t)
}

// QueryQF builds the instantiated variant of an obligation's query; nil if it would equal the full query.
func (e *Engine) QueryQF(r *FuncResult, o *Obligation) []*Term {
	tb := e.tb
	goal := tb.Not(e.skolemize(o.Goal))
	if o.Cover {
		goal = tb.True()
	}
	anyQ := false
	facts := e.relevantFacts(r, o)
	for _, f := range facts {
		if hasQuant(f) {
			anyQ = true
			break
		}
	}
	if !anyQ {
		return nil
	}
	base := []*Term{o.Cond, goal}
	var as []*Term
	if len(r.ErrGlobals) > 1 {
		as = append(as, tb.Distinct(r.ErrGlobals...))
	}
	var quant []*Term
	for _, f := range facts {
		if hasQuant(f) {
			quant = append(quant, f)
		} else {
			as = append(as, f)
		}
	}
	// rounds: instantiate at the index terms of the goal, then at those the instances introduce;
	// instances accumulate, every round only uses the candidates that are new
	seenCand := map[*Term]bool{}
	haveInst := map[*Term]bool{}
	var insts []*Term
	cur := base
	for round := 0; round < 4; round++ {
		var fresh []*Term
		for _, c := range e.collectIndexTerms(cur) {
			if !seenCand[c] {
				seenCand[c] = true
				fresh = append(fresh, c)
			}
		}
		if len(fresh) == 0 {
			break
		}
		if len(fresh) > 20 {
			fresh = fresh[:20]
		}
		var added []*Term
		for qi, f := range quant {
			if os.Getenv("GOVC_DEBUG_INST") != "" {
				fmt.Fprintf(os.Stderr, "INST round %d fact %d: %d fresh cands; fact=%s\n", round, qi, len(fresh), tb.Show(f)[:min(len(tb.Show(f)), 160)])
			}
			for _, in := range e.instantiate(f, fresh, 24) {
				if !haveInst[in] && !in.IsTrue() {
					haveInst[in] = true
					added = append(added, in)
				}
			}
		}
		if len(insts)+len(added) > 500 {
			break
		}
		insts = append(insts, added...)
		cur = added
	}
	as = append(as, insts...)
	as = append(as, o.Cond, goal)
	as = append(e.litFactsFor(as), as...)
	var out []*Term
	seen := map[*Term]bool{}
	for _, a := range as {
		if a.IsTrue() || seen[a] {
			continue
		}
		seen[a] = true
		out = append(out, a)
	}
	return out
}

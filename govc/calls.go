package main

// Calls: builtins, ghost intrinsics, inlining, contracts, interface dispatch.

import (
	"fmt"
	"go/token"
	"go/types"
	"sort"
	"strings"

	"golang.org/x/tools/go/ssa"
)

func (e *Engine) execCall(fr *Frame, st *State, ins ssa.Instruction, cc *ssa.CallCommon) Val {
	if cc.IsInvoke() {
		recv := e.term(fr, cc.Value)
		var args []Val
		for _, a := range cc.Args {
			args = append(args, e.val(fr, a))
		}
		return e.invoke(fr, st, ins, recv, cc.Value.Type(), cc.Method, args)
	}
	fnv := e.val(fr, cc.Value)
	var args []Val
	for _, a := range cc.Args {
		args = append(args, e.val(fr, a))
	}
	return e.callValue(fr, st, ins, cc, fnv, args)
}

func (e *Engine) callValue(fr *Frame, st *State, ins ssa.Instruction, cc *ssa.CallCommon, fnv Val, args []Val) Val {
	if cc != nil && cc.IsInvoke() {
		recv, ok := fnv.(*Term)
		if !ok {
			unsupported("deferred invoke on non-term")
		}
		return e.invoke(fr, st, ins, recv, cc.Value.Type(), cc.Method, args)
	}
	switch f := fnv.(type) {
	case *ssa.Builtin:
		return e.builtin(fr, st, ins, f, cc, args)
	case *FuncVal:
		return e.callFunc(fr, st, ins, f.Fn, f.Bindings, args)
	case *Term:
		if f.Op == "const" {
			if fv, ok := e.fnTable[f.Name]; ok {
				return e.callFunc(fr, st, ins, fv.Fn, fv.Bindings, args)
			}
		}
		return e.callUnknown(fr, st, ins, cc, f, args)
	}
	unsupported("call of %T", fnv)
	return nil
}

func packResults(res []Val) Val {
	switch len(res) {
	case 0:
		return nil
	case 1:
		return res[0]
	}
	return TupleVal(res)
}

func fnKey(fn *ssa.Function) string {
	// "pkgpath.Name" or "pkgpath.Type.Method" or closures "pkgpath.Outer$1"
	if fn.Parent() != nil {
		return fnKey(fn.Parent()) + strings.TrimPrefix(fn.Name(), fn.Parent().Name())
	}
	pkg := ""
	if fn.Pkg != nil {
		pkg = fn.Pkg.Pkg.Path()
	} else if fn.Object() != nil && fn.Object().Pkg() != nil {
		pkg = fn.Object().Pkg().Path()
	}
	if recv := fn.Signature.Recv(); recv != nil {
		t := recv.Type()
		if p, ok := t.(*types.Pointer); ok {
			t = p.Elem()
		}
		if n, ok := t.(*types.Named); ok {
			return pkg + "." + n.Obj().Name() + "." + fn.Name()
		}
	}
	return pkg + "." + fn.Name()
}

func hasLoops(fn *ssa.Function) bool {
	for _, b := range fn.Blocks {
		for _, s := range b.Succs {
			if s.Dominates(b) {
				return true
			}
		}
	}
	return false
}

func (e *Engine) contractFor(fn *ssa.Function) *Contract {
	if c, ok := e.fnContract[fn]; ok {
		return c
	}
	k := fnKey(fn)
	if c, ok := e.cs.ByKey[k]; ok {
		e.fnContract[fn] = c
		return c
	}
	// external contracts are declared in the using package as "pkgname.Func" / "pkgname.Type.Method"
	if fn.Parent() == nil {
		short := fnKey(fn)
		if i := strings.LastIndex(short, "/"); i >= 0 {
			short = short[i+1:]
		}
		if c, ok := e.extContract[short]; ok {
			e.fnContract[fn] = c
			return c
		}
	}
	e.fnContract[fn] = nil
	return nil
}

func (e *Engine) callFunc(fr *Frame, st *State, ins ssa.Instruction, fn *ssa.Function, bindings []Val, args []Val) Val {
	if v, ok := e.intrinsic(fr, st, ins, fn, bindings, args); ok {
		return v
	}
	c := e.contractFor(fn)
	if c != nil && c.Stale != "" && !c.StaleLoopsOnly {
		unsupported("callee %s has a stale contract", fnKey(fn))
	}
	if fr.contract != nil && fr.caller == nil && !fr.ghost && len(fr.contract.CallsiteRequires) > 0 {
		k := fnKey(fn)
		short := k
		if i := strings.LastIndex(short, "/"); i >= 0 {
			short = short[i+1:]
		}
		local := strings.TrimPrefix(k, fr.contract.PkgPath+".")
		for _, key := range []string{k, short, local, fn.Name()} {
			if cls, ok := fr.contract.CallsiteRequires[key]; ok {
				for _, cl := range cls {
					g := e.evalClause(fr, st, fr.entry, cl, nil)
					e.safetyN[e.curFunc+"/callsite/"+key]++
					e.addObligation(fr, st, "pre", fmt.Sprintf("callsite.%s.%s#%d", key, cl.Label, e.safetyN[e.curFunc+"/callsite/"+key]), g, cl)
				}
				break
			}
		}
	}
	mode := ""
	for f := fr; f != nil && mode == ""; f = f.caller {
		if f.contract == nil {
			continue
		}
		k := fnKey(fn)
		short := k
		if i := strings.LastIndex(short, "/"); i >= 0 {
			short = short[i+1:]
		}
		local := strings.TrimPrefix(k, f.contract.PkgPath+".")
		for _, key := range []string{k, short, local, fn.Name()} {
			if m, ok := f.contract.Calls[key]; ok {
				mode = m
				break
			}
			if f.contract.Inline[key] {
				mode = "inline"
				break
			}
		}
	}
	if mode == "" {
		switch {
		case fr.ghost:
			mode = "inline"
		case c != nil && !c.Lemma && (len(c.Ensures) > 0 || len(c.Requires) > 0 || c.HasAssigns || c.Trusted):
			mode = "contract"
		default:
			mode = "inline"
		}
	}
	if mode == "contract" && !fr.ghost && e.hasConcreteOwnIface(fn, args) {
		// The callee's contract was proved against the abstract contract of its interface parameters.
		// An argument whose dynamic type is one of the library's own types (with memory effects of
		// its own) does not in general refine that contract, so the callee is executed instead.
		if len(fn.Blocks) > 0 && (!hasLoops(fn) || (c != nil && len(c.Loops) > 0)) {
			mode = "inline"
		} else {
			unsupported("call to %s with a concrete library type as interface argument: contract not applicable and callee not inlinable", fnKey(fn))
		}
	}
	switch mode {
	case "contract":
		if c == nil {
			unsupported("call %s: no contract", fn.Name())
		}
		e.havocCaptured(fr, st, args)
		return e.applyContract(fr, st, ins, c, fn, args)
	case "havoc":
		e.havocCaptured(fr, st, args)
		return e.havocCall(fr, st, fn.Signature, fn.Name())
	}
	// inline
	if len(fn.Blocks) == 0 {
		unsupported("call to %s: no body and no contract", fnKey(fn))
	}
	if fr.depth >= e.inlineDepthLimit {
		unsupported("inline depth exceeded at %s", fn.Name())
	}
	if hasLoops(fn) && (c == nil || len(c.Loops) == 0) {
		unsupported("call to %s: callee has loops but no contract", fnKey(fn))
	}
	child := e.newFrame(fn, fr)
	child.contract = c
	e.bindParams(child, args)
	for i, fv := range fn.FreeVars {
		if i < len(bindings) {
			child.vals[fv] = bindings[i]
		}
	}
	entryCond := st.cond
	if child.ghost {
		// specification code is pure and total: evaluate it independently of the caller's path condition
		// (so that the same expression yields the same term wherever it is evaluated)
		st.cond = e.tb.True()
	}
	res, out := e.runBody(child, st)
	*st = *out
	if child.ghost {
		st.cond = entryCond
		st.dead = false
	}
	return packResults(res)
}

func (e *Engine) freshOf(st *State, hint string, t types.Type) Val {
	switch u := t.Underlying().(type) {
	case *types.Pointer:
		r := e.tb.Fresh(hint, SRef)
		return &PtrVal{Kind: KObj, Ref: r, Typ: u.Elem()}
	case *types.Tuple:
		var tv TupleVal
		for i := 0; i < u.Len(); i++ {
			tv = append(tv, e.freshOf(st, fmt.Sprintf("%s_%d", hint, i), u.At(i).Type()))
		}
		return tv
	}
	return e.tb.Fresh(hint, e.sortOf(t))
}

func (e *Engine) havocAllHeaps(st *State, hint string) {
	// heaps are discovered lazily; a heap first touched after this point would silently keep its
	// entry value, so remember how many were known and re-run if more turn up (see runOnce)
	if e.havocAllMin < 0 || len(e.heapSorts) < e.havocAllMin {
		e.havocAllMin = len(e.heapSorts)
	}
	for n, s := range e.heapSorts {
		st.heaps[n] = e.tb.Fresh(hint+"_"+n, s)
	}
}

func (e *Engine) havocCall(fr *Frame, st *State, sig *types.Signature, name string) Val {
	e.havocAllHeaps(st, "hv_"+name)
	nc := e.tb.Fresh("clk", SInt)
	e.addFact(st, e.tb.IntCmp(">=", nc, st.clock))
	st.clock = nc
	var res []Val
	for i := 0; i < sig.Results().Len(); i++ {
		v := e.freshOf(st, "r_"+name, sig.Results().At(i).Type())
		e.assumeWFVal(fr, st, v, sig.Results().At(i).Type())
		res = append(res, v)
	}
	e.notes = append(e.notes, "call to "+name+" abstracted: result and all heaps havocked")
	return packResults(res)
}

func (e *Engine) assumeWFVal(fr *Frame, st *State, v Val, t types.Type) {
	switch x := v.(type) {
	case *Term:
		e.assumeWF(fr, st, x, t)
	case *PtrVal:
		if x.Kind == KObj {
			e.addFact(st, e.tb.IntCmp("<", e.tb.RootID(x.Ref), st.clock))
		}
	}
}

func (e *Engine) callUnknown(fr *Frame, st *State, ins ssa.Instruction, cc *ssa.CallCommon, f *Term, args []Val) Val {
	// dynamic call of an unknown function value (user callback)
	sig := cc.Value.Type().Underlying().(*types.Signature)
	key := "callback:" + types.TypeString(cc.Value.Type(), func(p *types.Package) string { return p.Name() })
	e.havocCaptured(fr, st, args)
	if c, ok := e.ifaceContract(key); ok {
		return e.applyIfaceContract(fr, st, ins, c, f, args, sig)
	}
	if !fr.ghost {
		e.safety(fr, st, "safe-nil", ins, e.tb.Not(e.tb.Eq(f, e.tb.Const("fn_nil", SFn))))
	}
	return e.havocCall(fr, st, sig, "callback")
}

// ---------- interface invoke

func ifaceKey(t types.Type, method string) string {
	s := types.TypeString(t, func(p *types.Package) string { return p.Name() })
	return s + "." + method
}

func (e *Engine) invoke(fr *Frame, st *State, ins ssa.Instruction, recv *Term, it types.Type, m *types.Func, args []Val) Val {
	tb := e.tb
	tag := tb.Acc(recv, 0)
	if tag.Op == "intlit" {
		id := int(tag.Val.Int64())
		if id == 0 {
			e.safety(fr, st, "safe-nil", ins, tb.False())
			st.cond = tb.False()
			st.dead = true
			return e.freshOf(st, "dead", m.Type().(*types.Signature).Results())
		}
		ct := e.tagTypes[id]
		ms := e.prog.MethodSets.MethodSet(ct)
		sel := ms.Lookup(m.Pkg(), m.Name())
		if sel == nil {
			unsupported("method %s not found on %s", m.Name(), ct)
		}
		fn := e.prog.MethodValue(sel)
		var self Val
		if pt, ok := ct.Underlying().(*types.Pointer); ok {
			self = &PtrVal{Kind: KObj, Ref: tb.Acc(recv, 1), Typ: pt.Elem()}
		} else {
			self = e.wrapLoaded(fr, st, e.unbox(tb.Acc(recv, 1), e.sortOf(ct)), ct)
		}
		return e.callFunc(fr, st, ins, fn, nil, append([]Val{self}, args...))
	}
	// case split over the implementations the contract of the function under verification lists
	if impls := e.implsFor(fr, it); len(impls) > 0 {
		return e.dispatch(fr, st, ins, recv, it, m, args, impls)
	}
	key := ifaceKey(it, m.Name())
	if c, ok := e.ifaceContract(key); ok {
		if !fr.ghost {
			e.safety(fr, st, "safe-nil", ins, tb.Not(tb.Eq(tag, tb.Int(0))))
		}
		return e.applyIfaceContract(fr, st, ins, c, recv, args, m.Type().(*types.Signature))
	}
	if !fr.ghost {
		e.safety(fr, st, "safe-nil", ins, tb.Not(tb.Eq(tag, tb.Int(0))))
	}
	if m.Name() == "Error" && len(args) == 0 {
		// error text: an arbitrary string; no side effects
		ref := tb.Fresh("errstr", SStr)
		e.addFact(st, e.wfStr(st, ref))
		return ref
	}
	unsupported("interface call %s has no contract", key)
	return nil
}

// ---------- contracts at call sites

type binding func(p WParam) Val

func (e *Engine) wrapperFn(c *Contract, cl *Clause) *ssa.Function {
	pkg := e.ssaPkgs[c.PkgPath]
	if pkg == nil {
		unsupported("no ssa package %s", c.PkgPath)
	}
	fn := pkg.Func(cl.Wrapper)
	if fn == nil {
		unsupported("wrapper %s for clause [%s] of %s not found (stale contract?)", cl.Wrapper, cl.Label, c.Key)
	}
	return fn
}

func (e *Engine) asVal(t *Term, typ types.Type) Val {
	if pt, ok := typ.Underlying().(*types.Pointer); ok {
		return &PtrVal{Kind: KObj, Ref: t, Typ: pt.Elem()}
	}
	if _, ok := typ.Underlying().(*types.Signature); ok && t.Op == "const" {
		if f, ok := e.fnTable[t.Name]; ok {
			return f
		}
	}
	return t
}

// evalWrapper runs a clause wrapper with the given argument values in state st (old = state for old()).
func (e *Engine) evalWrapper(fr *Frame, st, old *State, fn *ssa.Function, args []Val) Val {
	child := e.newFrame(fn, fr)
	child.ghost = true
	child.old = old
	child.depth = 0
	e.bindParams(child, args)
	tmp := st.clone()
	tmp.cond = e.tb.True() // ghost code is pure: evaluate it independently of the path condition
	tmp.dead = false
	e.ghostDepth++
	res, _ := func() ([]Val, *State) {
		defer func() { e.ghostDepth-- }()
		return e.runBody(child, tmp)
	}()
	if e.ghostDepth == 0 && len(e.pendingFacts) > 0 {
		seen := map[*Term]bool{}
		for _, f := range e.pendingFacts {
			if !seen[f] {
				seen[f] = true
				e.addGlobalFact(f)
			}
		}
		e.pendingFacts = nil
	}
	if len(res) != 1 {
		unsupported("wrapper %s returned %d values", fn.Name(), len(res))
	}
	return res[0]
}

// evalClause evaluates a clause of the contract of the function executing in fr.
func (e *Engine) evalClause(fr *Frame, st, old *State, cl *Clause, results []Val) *Term {
	c := fr.contract
	fn := e.wrapperFn(c, cl)
	var args []Val
	for i, p := range cl.Params {
		var v Val
		switch p.Kind {
		case PKResult:
			if p.ResIdx >= len(results) {
				unsupported("clause [%s]: result %d not available", cl.Label, p.ResIdx)
			}
			v = results[p.ResIdx]
		case PKEntry:
			x, ok := fr.params[p.PosKey]
			if !ok {
				unsupported("clause [%s]: parameter %s not found", cl.Label, p.Name)
			}
			v = x
		case PKCur:
			pv, ok := fr.byPos[p.PosKey]
			if !ok {
				pv, ok = fr.free[p.PosKey]
			}
			if !ok {
				// not yet allocated on this path: zero value
				v = e.asVal(e.zero(fn.Params[i].Type()), fn.Params[i].Type())
			} else {
				v = e.wrapLoadedGhost(e.load(st, pv), fn.Params[i].Type())
			}
		case PKAddr:
			v = e.addrOfLocal(fr, cl, p)
		}
		args = append(args, v)
	}
	r := e.evalWrapper(fr, st, old, fn, args)
	t, ok := r.(*Term)
	if !ok {
		unsupported("clause [%s] did not produce a term", cl.Label)
	}
	return t
}

// addrOfLocal: the pointer to an address-taken local of the function under verification.
func (e *Engine) addrOfLocal(fr *Frame, cl *Clause, p WParam) Val {
	pv, ok := fr.byPos[p.PosKey]
	if !ok {
		pv, ok = fr.free[p.PosKey]
	}
	if !ok {
		unsupported("clause [%s]: &%s used before the variable is allocated", cl.Label, strings.TrimPrefix(p.Name, "addr_"))
	}
	if pv.Kind != KObj {
		unsupported("clause [%s]: &%s of a variable that is not address-taken in the code", cl.Label, strings.TrimPrefix(p.Name, "addr_"))
	}
	return pv
}

func (e *Engine) wrapLoadedGhost(v *Term, t types.Type) Val {
	return e.asVal(v, t)
}

// evalCalleeClause evaluates a clause of callee contract c with actual arguments / results.
func (e *Engine) evalCalleeClause(fr *Frame, st, old *State, c *Contract, callee *ssa.Function, cl *Clause, args []Val, results []Val) Val {
	fn := e.wrapperFn(c, cl)
	var wargs []Val
	for _, p := range cl.Params {
		switch p.Kind {
		case PKResult:
			if p.ResIdx >= len(results) {
				unsupported("clause [%s]: result %d not available", cl.Label, p.ResIdx)
			}
			wargs = append(wargs, results[p.ResIdx])
		case PKEntry:
			found := false
			for i, cp := range callee.Params {
				if e.posKey(cp.Name(), cp.Pos()) == p.PosKey || (cp.Name() == p.Name && c.External) {
					wargs = append(wargs, args[i])
					found = true
					break
				}
			}
			if !found {
				unsupported("clause [%s] of %s: parameter %s not matched", cl.Label, c.Key, p.Name)
			}
		default:
			unsupported("clause [%s] of %s refers to a local", cl.Label, c.Key)
		}
	}
	return e.evalWrapper(fr, st, old, fn, wargs)
}

func (e *Engine) applyContract(fr *Frame, st *State, ins ssa.Instruction, c *Contract, callee *ssa.Function, args []Val) Val {
	tb := e.tb
	name := c.Key
	// preconditions
	if !fr.ghost {
		for _, cl := range c.Requires {
			g := e.evalCalleeClause(fr, st, st, c, callee, cl, args, nil).(*Term)
			key := e.curFunc + "/pre"
			e.safetyN[key+name]++
			label := fmt.Sprintf("%s.%s#%d", name, cl.Label, e.safetyN[key+name])
			e.obls = e.appendObl(&Obligation{Name: e.curFunc + "/pre/" + label, Kind: "pre", Func: e.curFunc, Label: label, Cond: st.cond, Goal: g,
				NFacts: len(e.facts), Pos: e.prog.Fset.Position(ins.Pos()), Clause: cl})
			e.addFact(st, g)
		}
	}
	pre := st.clone()
	// havoc assigns
	hasAssigns := c.HasAssigns
	for _, a := range c.Assigns {
		if a.Kind == "everything" {
			hasAssigns = false
		}
	}
	if !hasAssigns {
		e.havocAllHeaps(st, "hv_"+name)
		e.notes = append(e.notes, "callee "+name+" has no assigns clause: all heaps havocked at the call")
	} else {
		var targets []*havocTarget
		for _, a := range c.Assigns {
			targets = append(targets, e.assignTargets(fr, pre, a, func(cl *Clause) Val {
				return e.evalCalleeClause(fr, pre, pre, c, callee, cl, args, nil)
			})...)
		}
		byHeap := map[string]bool{}
		for _, t := range targets {
			byHeap[t.heap] = true
		}
		var hn []string
		for n := range byHeap {
			hn = append(hn, n)
		}
		sort.Strings(hn)
		for _, n := range hn {
			e.havocHeap(fr, st, pre, n, targets, true, "c_"+sanitize(name))
		}
	}
	// the callee may allocate
	nc := tb.Fresh("clk", SInt)
	e.addFact(st, tb.IntCmp(">=", nc, pre.clock))
	st.clock = nc
	// results
	var res []Val
	sig := callee.Signature
	for i := 0; i < sig.Results().Len(); i++ {
		v := e.freshOf(st, "r_"+sanitize(name), sig.Results().At(i).Type())
		e.assumeWFVal(fr, st, v, sig.Results().At(i).Type())
		res = append(res, v)
	}
	var ens []*Term
	for _, cl := range c.Ensures {
		g := e.evalCalleeClause(fr, st, pre, c, callee, cl, args, res).(*Term)
		e.addFactQ(st, g)
		ens = append(ens, g)
	}
	// results declared fresh by the contract: rootid(X) >= clock-before-the-call
	for _, g := range ens {
		var cs []*Term
		if g.Op == "and" {
			cs = g.Args
		} else {
			cs = []*Term{g}
		}
		for _, c := range cs {
			if c.Op == ">=" && c.Args[0].Op == "app" && c.Args[0].Name == "rootid" && c.Args[1] == pre.clock {
				e.tb.NewRefs[c.Args[0].Args[0]] = true
			}
		}
	}
	// results that are fresh struct constants: substitute the fields the contract defines by equalities
	for i, r := range res {
		if t, ok := r.(*Term); ok && t.Op == "const" {
			if _, isDT := e.tb.dtDecl[string(t.Sort)]; isDT && t.Sort != SSlice && t.Sort != SStr && t.Sort != SIface {
				res[i] = e.rewriteByEqualities(t, ens)
			}
		}
	}
	return packResults(res)
}

// rewriteByEqualities rebuilds the fresh constant x using top-level conjunct equalities field-path(x) == t
// (t not mentioning x) found in the given assumed facts. The result is equal to x under those facts.
func (e *Engine) rewriteByEqualities(x *Term, facts []*Term) *Term {
	tb := e.tb
	mentions := func(t *Term) bool {
		found := false
		vis := map[*Term]bool{}
		var rec func(t *Term)
		rec = func(t *Term) {
			if found || vis[t] {
				return
			}
			vis[t] = true
			if t == x {
				found = true
				return
			}
			for _, a := range t.Args {
				rec(a)
			}
		}
		rec(t)
		return found
	}
	cur := x
	for _, pr := range e.equalitiesOf(facts) {
		lhs, rhs := pr[0], pr[1]
		for pass := 0; pass < 2; pass++ {
			var path []int
			y := lhs
			ok := true
			for y.Op == "acc" {
				d := tb.dtDecl[string(y.Args[0].Sort)]
				idx := -1
				for i, f := range d.Fields {
					if f.Name == y.Name {
						idx = i
					}
				}
				if idx < 0 {
					ok = false
					break
				}
				path = append([]int{idx}, path...)
				y = y.Args[0]
			}
			if ok && y == x && len(path) > 0 && !mentions(rhs) {
				cur = e.withPath(cur, path, rhs)
				break
			}
			lhs, rhs = rhs, lhs
		}
	}
	return cur
}

// addFactQ adds an assumed clause; universally quantified parts get patterns.
func (e *Engine) addFactQ(st *State, g *Term) {
	e.addFact(st, e.withPatterns(g))
}

func (e *Engine) applyIfaceContract(fr *Frame, st *State, ins ssa.Instruction, c *Contract, self *Term, args []Val, sig *types.Signature) Val {
	tb := e.tb
	name := c.Key
	all := append([]Val{self}, args...)
	blackBox := fr.contract != nil && len(fr.contract.InvokeAssigns[c.Key]) > 0
	if blackBox {
		// "invoke ... assigns": the callee is an arbitrary implementation of the interface whose
		// abstract precondition is assumed, not checked (listed among the notes of the run)
		for _, cl := range c.Requires {
			e.addFact(st, e.evalWrapper(fr, st, st, e.wrapperFn(c, cl), all).(*Term))
		}
		e.notes = append(e.notes, "interface call "+name+" treated as a black box with an extended frame (invoke ... assigns); its abstract precondition is assumed")
	}
	if !fr.ghost && !blackBox {
		for _, cl := range c.Requires {
			g := e.evalWrapper(fr, st, st, e.wrapperFn(c, cl), all).(*Term)
			key := e.curFunc + "/pre" + name
			e.safetyN[key]++
			label := fmt.Sprintf("%s.%s#%d", name, cl.Label, e.safetyN[key])
			e.obls = e.appendObl(&Obligation{Name: e.curFunc + "/pre/" + label, Kind: "pre", Func: e.curFunc, Label: label, Cond: st.cond, Goal: g,
				NFacts: len(e.facts), Pos: e.prog.Fset.Position(ins.Pos()), Clause: cl})
			e.addFact(st, g)
		}
	}
	if fr.contract != nil && !fr.ghost && fr.caller == nil {
		for _, cl := range fr.contract.InvokeRequires[c.Key] {
			g := e.evalClause(fr, st, fr.entry, cl, all)
			key := e.curFunc + "/invoke/" + name
			e.safetyN[key]++
			e.addObligation(fr, st, "pre", fmt.Sprintf("invoke.%s.%s#%d", name, cl.Label, e.safetyN[key]), g, cl)
		}
	}
	pre := st.clone()
	var targets []*havocTarget
	everything := false
	for _, a := range c.Assigns {
		if a.Kind == "everything" {
			everything = true
			continue
		}
		targets = append(targets, e.assignTargets(fr, pre, a, func(cl *Clause) Val {
			return e.evalWrapper(fr, pre, pre, e.wrapperFn(c, cl), all)
		})...)
	}
	if fr.contract != nil && !everything {
		for _, a := range fr.contract.InvokeAssigns[c.Key] {
			targets = append(targets, e.assignTargets(fr, pre, a, nil)...)
		}
	}
	if everything {
		targets = nil
		e.havocAllHeaps(st, "c_"+sanitize(name))
		nc := e.tb.Fresh("clk", SInt)
		e.addFact(st, e.tb.IntCmp(">=", nc, st.clock))
		st.clock = nc
	}
	byHeap := map[string]bool{}
	for _, t := range targets {
		byHeap[t.heap] = true
	}
	var hn []string
	for n := range byHeap {
		hn = append(hn, n)
	}
	sort.Strings(hn)
	for _, n := range hn {
		e.havocHeap(fr, st, pre, n, targets, true, "c_"+sanitize(name))
	}
	var res []Val
	for i := 0; i < sig.Results().Len(); i++ {
		v := e.freshOf(st, "r_"+sanitize(name), sig.Results().At(i).Type())
		e.assumeWFVal(fr, st, v, sig.Results().At(i).Type())
		res = append(res, v)
	}
	for _, cl := range c.Ensures {
		g := e.evalWrapper(fr, st, pre, e.wrapperFn(c, cl), append(append([]Val{}, all...), res...)).(*Term)
		e.addFactQ(st, g)
	}
	if fr.contract != nil {
		for _, cl := range fr.contract.InvokeEnsures[c.Key] {
			g := e.evalClause(fr, st, pre, cl, append(append([]Val{}, all...), res...))
			e.addFactQ(st, g)
			e.notes = append(e.notes, "ASSUMED about "+name+" in "+e.curFunc+": ["+cl.Label+"] "+cl.Text)
		}
	}
	_ = tb
	return packResults(res)
}

// assignTargets turns an assigns item into concrete heap locations. eval evaluates the item's
// expression wrapper (nil: evaluate as a clause of the current function).
func (e *Engine) assignTargets(fr *Frame, st *State, a *AssignItem, eval func(cl *Clause) Val) []*havocTarget {
	tb := e.tb
	if a.Expr == nil {
		unsupported("assigns item %q was not compiled", a.Text)
	}
	var v Val
	if eval != nil {
		v = eval(a.Expr)
	} else {
		c := fr.contract
		fn := e.wrapperFn(c, a.Expr)
		var args []Val
		for i, p := range a.Expr.Params {
			switch p.Kind {
			case PKEntry:
				args = append(args, fr.params[p.PosKey])
			case PKCur:
				pv, ok := fr.byPos[p.PosKey]
				if !ok {
					pv, ok = fr.free[p.PosKey]
				}
				if !ok {
					args = append(args, e.asVal(e.zero(fn.Params[i].Type()), fn.Params[i].Type()))
				} else {
					args = append(args, e.asVal(e.load(st, pv), fn.Params[i].Type()))
				}
			case PKAddr:
				args = append(args, e.addrOfLocal(fr, a.Expr, p))
			default:
				unsupported("assigns item refers to a result")
			}
		}
		v = e.evalWrapper(fr, st, fr.entry, fn, args)
	}
	var out []*havocTarget
	switch a.Kind {
	case "bytes":
		s := v.(*Term)
		lo := e.sOff(s)
		out = append(out, &havocTarget{heap: "M", ref: e.sBase(s), lo: lo, hi: tb.BVBin("bvadd", lo, e.sLen(s))})
		e.heap(st, "M", ArraySort(SRef, SBytes))
	case "stream", "instream", "outstream":
		s := v.(*Term)
		ref := tb.Acc(s, 1)
		names := []string{"in_pos", "out_len", "out_calls"}
		switch a.Kind {
		case "instream":
			names = []string{"in_pos"}
		case "outstream":
			names = []string{"out_len", "out_calls"}
		}
		for _, n := range names {
			e.heap(st, n, ArraySort(SRef, SBV64))
			out = append(out, &havocTarget{heap: n, ref: ref})
		}
		if a.Kind != "instream" {
			e.heap(st, "out_data", ArraySort(SRef, SBytes))
			out = append(out, &havocTarget{heap: "out_data", ref: ref})
		}
	case "obj":
		p, ok := v.(*PtrVal)
		if !ok || p.Kind != KObj {
			unsupported("assigns *X: X is not an object pointer")
		}
		out = append(out, e.objTargets(st, p.Ref, p.Typ)...)
	case "field":
		p, ok := v.(*PtrVal)
		if !ok || p.Kind != KObj {
			unsupported("assigns X.f: X is not an object pointer")
		}
		stt, ok := p.Typ.Underlying().(*types.Struct)
		if !ok {
			unsupported("assigns X.f: X does not point to a struct")
		}
		found := false
		for i := 0; i < stt.NumFields(); i++ {
			if stt.Field(i).Name() == a.Field {
				found = true
				ft := stt.Field(i).Type()
				if isAggregate(ft) {
					out = append(out, e.objTargets(st, tb.RefSub(p.Ref, i), ft)...)
				} else {
					n := e.heapName(p.Typ, i)
					e.heap(st, n, ArraySort(SRef, e.sortOf(ft)))
					out = append(out, &havocTarget{heap: n, ref: p.Ref})
				}
			}
		}
		if !found {
			unsupported("assigns: no field %s", a.Field)
		}
	default:
		unsupported("assigns kind %q", a.Kind)
	}
	return out
}

func (e *Engine) objTargets(st *State, ref *Term, t types.Type) []*havocTarget {
	var out []*havocTarget
	switch u := t.Underlying().(type) {
	case *types.Struct:
		for i := 0; i < u.NumFields(); i++ {
			ft := u.Field(i).Type()
			if isAggregate(ft) {
				out = append(out, e.objTargets(st, e.tb.RefSub(ref, i), ft)...)
			} else {
				n := e.heapName(t, i)
				e.heap(st, n, ArraySort(SRef, e.sortOf(ft)))
				out = append(out, &havocTarget{heap: n, ref: ref})
			}
		}
	case *types.Array:
		es := e.sortOf(u.Elem())
		n := "M"
		if es != SBV8 {
			n = e.elemHeapName(es)
		}
		e.elemHeap(st, es)
		out = append(out, &havocTarget{heap: n, ref: ref})
	default:
		n := e.boxHeapName(e.sortOf(t))
		e.heap(st, n, ArraySort(SRef, e.sortOf(t)))
		out = append(out, &havocTarget{heap: n, ref: ref})
	}
	return out
}

// ---------- builtins

func (e *Engine) builtin(fr *Frame, st *State, ins ssa.Instruction, b *ssa.Builtin, cc *ssa.CallCommon, args []Val) Val {
	tb := e.tb
	switch b.Name() {
	case "len", "cap":
		switch x := args[0].(type) {
		case *Term:
			switch x.Sort {
			case SSlice:
				if b.Name() == "len" {
					return e.sLen(x)
				}
				return e.sCap(x)
			case SStr:
				return tb.Acc(x, 2)
			}
			if at, ok := cc.Args[0].Type().Underlying().(*types.Array); ok {
				return tb.BV(at.Len(), 64)
			}
		case *PtrVal:
			if at, ok := x.Typ.Underlying().(*types.Array); ok {
				return tb.BV(at.Len(), 64)
			}
		}
		unsupported("len/cap of %T", args[0])
	case "copy":
		dst := args[0].(*Term)
		if s, ok := args[1].(*Term); ok && s.Sort == SSlice && fr.contract != nil && fr.caller == nil && !fr.ghost {
			for _, cl := range fr.contract.CallsiteRequires["copy"] {
				g := e.evalClause(fr, st, fr.entry, cl, []Val{dst, s})
				e.safetyN[e.curFunc+"/callsite/copy"]++
				e.addObligation(fr, st, "pre", fmt.Sprintf("callsite.copy.%s#%d", cl.Label, e.safetyN[e.curFunc+"/callsite/copy"]), g, cl)
			}
		}
		var n *Term
		var src func(k *Term) *Term
		switch s := args[1].(*Term); s.Sort {
		case SSlice:
			n = e.minS(e.sLen(dst), e.sLen(s))
			reg := e.region(st, e.elemSortOfSliceArg(cc.Args[0].Type()), e.sBase(s))
			off := e.sOff(s)
			src = func(k *Term) *Term { return tb.Select(reg, tb.BVBin("bvadd", off, k)) }
		case SStr:
			n = e.minS(e.sLen(dst), tb.Acc(s, 2))
			src = func(k *Term) *Term { return e.strByte(st, s, k) }
		default:
			unsupported("copy from %s", s.Sort)
		}
		if e.elemSortOfSliceArg(cc.Args[0].Type()) != SBV8 {
			unsupported("copy of non-byte slices")
		}
		e.copyInto(fr, st, e.sBase(dst), e.sOff(dst), src, n, false)
		return n
	case "append":
		return e.appendBuiltin(fr, st, ins, cc, args)
	case "min", "max":
		x, y := args[0].(*Term), args[1].(*Term)
		signed := isSigned(cc.Args[0].Type())
		op := cmpOp(token.LSS, signed)
		if b.Name() == "max" {
			op = cmpOp(token.GTR, signed)
		}
		return tb.Ite(tb.BVCmp(op, x, y), x, y)
	case "ssa:wrapnilchk":
		return args[0]
	case "ssa:deferstack":
		return &PtrVal{Kind: KNil}
	case "print", "println":
		return nil
	case "recover":
		return e.nilIface()
	}
	unsupported("builtin %s", b.Name())
	return nil
}

func (e *Engine) elemSortOfSliceArg(t types.Type) Sort {
	switch u := t.Underlying().(type) {
	case *types.Slice:
		return e.sortOf(u.Elem())
	case *types.Basic:
		return SBV8
	}
	return SBV8
}

func (e *Engine) minS(a, b *Term) *Term {
	return e.tb.Ite(e.tb.BVCmp("bvslt", a, b), a, b)
}

// append: the result is a slice whose first len(s) elements equal s's and whose tail are the new
// elements. Whether the backing array is reused is decided by capacity, as in Go.
func (e *Engine) appendBuiltin(fr *Frame, st *State, ins ssa.Instruction, cc *ssa.CallCommon, args []Val) Val {
	tb := e.tb
	s := args[0].(*Term)
	es := e.elemSortOfSliceArg(cc.Args[0].Type())
	var addN *Term
	var src func(k *Term) *Term
	switch a := args[1].(*Term); a.Sort {
	case SSlice:
		addN = e.sLen(a)
		reg := e.region(st, es, e.sBase(a))
		off := e.sOff(a)
		src = func(k *Term) *Term { return tb.Select(reg, tb.BVBin("bvadd", off, k)) }
	case SStr:
		addN = tb.Acc(a, 2)
		src = func(k *Term) *Term { return e.strByte(st, a, k) }
	default:
		unsupported("append of %s", a.Sort)
	}
	n := e.sLen(s)
	newLen := tb.BVBin("bvadd", n, addN)
	fits := tb.BVCmp("bvsle", newLen, e.sCap(s))
	// new backing store (used when it does not fit)
	nref := e.newRef(st)
	ncap := tb.Fresh("appcap", SBV64)
	e.addFact(st, tb.And(tb.BVCmp("bvsle", newLen, ncap), tb.BVCmp("bvsle", ncap, tb.BV(1<<48, 64))))
	oldReg := e.region(st, es, e.sBase(s))
	soff := e.sOff(s)
	// in-place contents
	inPlace := tb.Fresh("app_in", ArraySort(SBV64, es))
	grown := tb.Fresh("app_new", ArraySort(SBV64, es))
	k := tb.BoundVar("k", SBV64)
	tailIn := tb.And(tb.BVCmp("bvsle", tb.BVBin("bvadd", soff, n), k), tb.BVCmp("bvslt", k, tb.BVBin("bvadd", soff, newLen)))
	e.addFact(st, tb.Forall([]*Term{k}, tb.Eq(tb.Select(inPlace, k),
		tb.Ite(tailIn, src(tb.BVBin("bvsub", k, tb.BVBin("bvadd", soff, n))), tb.Select(oldReg, k))), tb.mk("select", es, "", nil, inPlace, k)))
	k2 := tb.BoundVar("k", SBV64)
	e.addFact(st, tb.Forall([]*Term{k2}, tb.Implies(e.inBounds(k2, newLen), tb.Eq(tb.Select(grown, k2),
		tb.Ite(tb.BVCmp("bvslt", k2, n), tb.Select(oldReg, tb.BVBin("bvadd", soff, k2)), src(tb.BVBin("bvsub", k2, n))))), tb.mk("select", es, "", nil, grown, k2)))
	// update heaps: both possibilities merged by ite
	hname := "M"
	if es != SBV8 {
		hname = e.elemHeapName(es)
	}
	h := e.elemHeap(st, es)
	hIn := tb.Store(h, e.sBase(s), inPlace)
	hNew := tb.Store(h, nref, grown)
	e.setHeap(st, hname, tb.Ite(fits, hIn, hNew))
	return tb.Ite(fits,
		tb.Ctor("Slice", e.sBase(s), soff, newLen, e.sCap(s)),
		tb.Ctor("Slice", nref, tb.BV(0, 64), newLen, ncap))
}


// hasConcreteOwnIface: some interface-typed argument carries a known dynamic type defined in the
// packages under verification.
func (e *Engine) hasConcreteOwnIface(fn *ssa.Function, args []Val) bool {
	for i, p := range fn.Params {
		it, ok := p.Type().Underlying().(*types.Interface)
		if !ok || i >= len(args) || it.NumMethods() == 0 {
			continue // interface{}: the callee has no method to call through it
		}
		t, ok := args[i].(*Term)
		if !ok || t.Sort != SIface {
			continue
		}
		tag := e.tb.Acc(t, 0)
		if tag.Op != "intlit" {
			continue
		}
		dt := e.tagTypes[int(tag.Val.Int64())]
		if dt == nil {
			continue
		}
		if pt, ok := dt.(*types.Pointer); ok {
			dt = pt.Elem()
		}
		if n, ok := dt.(*types.Named); ok && n.Obj().Pkg() != nil && strings.HasPrefix(n.Obj().Pkg().Path(), "github.com/gobwas/ws") {
			return true
		}
	}
	return false
}


func (e *Engine) implsFor(fr *Frame, it types.Type) []types.Type {
	name := types.TypeString(it, func(p *types.Package) string { return p.Name() })
	for f := fr; f != nil; f = f.caller {
		if f.contract == nil || f.contract.Impls == nil {
			continue
		}
		names, ok := f.contract.Impls[name]
		if !ok {
			continue
		}
		var out []types.Type
		for _, n := range names {
			t := e.lookupTypeByName(n)
			if t == nil && !strings.Contains(n, ".") {
				// a type of the contract's own package
				ptr := strings.HasPrefix(n, "*")
				if sp := e.ssaPkgs[f.contract.PkgPath]; sp != nil {
					if o := sp.Pkg.Scope().Lookup(strings.TrimPrefix(n, "*")); o != nil {
						t = o.Type()
						if ptr {
							t = types.NewPointer(t)
						}
					}
				}
			}
			if t == nil {
				unsupported("impls: unknown type %s", n)
			}
			out = append(out, t)
		}
		return out
	}
	return nil
}

// dispatch executes an interface call as a case split over the listed dynamic types; that the
// receiver's dynamic type is one of them is an obligation.
func (e *Engine) dispatch(fr *Frame, st *State, ins ssa.Instruction, recv *Term, it types.Type, m *types.Func, args []Val, impls []types.Type) Val {
	tb := e.tb
	tag := tb.Acc(recv, 0)
	var conds []*Term
	for _, t := range impls {
		conds = append(conds, tb.Eq(tag, tb.Int(int64(e.typeTag(t)))))
	}
	key := ifaceKey(it, m.Name())
	abstract, hasAbstract := e.ifaceContract(key)
	if !fr.ghost && !hasAbstract {
		e.safety(fr, st, "dispatch", ins, tb.Or(conds...))
	}
	var states []*State
	var results [][]Val
	sig := m.Type().(*types.Signature)
	e.dispatchDepth++
	defer func() { e.dispatchDepth-- }()
	if e.dispatchDepth > 4 {
		// deeper nesting than any chain of the listed implementations can have: must be unreachable
		e.safety(fr, st, "dispatch-depth", ins, tb.False())
		st.cond = tb.False()
		st.dead = true
		return e.freshOf(st, "dead", sig.Results())
	}
	for i, t := range impls {
		g := st.clone()
		g.cond = tb.And(st.cond, conds[i])
		if g.cond.IsFalse() {
			continue
		}
		ms := e.prog.MethodSets.MethodSet(t)
		sel := ms.Lookup(m.Pkg(), m.Name())
		if sel == nil {
			unsupported("dispatch: %s has no method %s", t, m.Name())
		}
		fn := e.prog.MethodValue(sel)
		var self Val
		if pt, ok := t.Underlying().(*types.Pointer); ok {
			self = &PtrVal{Kind: KObj, Ref: tb.Acc(recv, 1), Typ: pt.Elem()}
		} else {
			self = e.wrapLoaded(fr, g, e.unbox(tb.Acc(recv, 1), e.sortOf(t)), t)
		}
		r := e.callFunc(fr, g, ins, fn, nil, append([]Val{self}, args...))
		if g.dead || g.cond.IsFalse() {
			continue
		}
		var rv []Val
		switch x := r.(type) {
		case nil:
		case TupleVal:
			rv = []Val(x)
		default:
			rv = []Val{x}
		}
		states = append(states, g)
		results = append(results, rv)
	}
	if hasAbstract {
		// none of the listed types: the abstract contract of the interface method
		g := st.clone()
		var negs []*Term
		for _, c := range conds {
			negs = append(negs, tb.Not(c))
		}
		g.cond = tb.And(append([]*Term{st.cond}, negs...)...)
		if !g.cond.IsFalse() {
			if !fr.ghost {
				e.safety(fr, g, "safe-nil", ins, tb.Not(tb.Eq(tag, tb.Int(0))))
			}
			r := e.applyIfaceContract(fr, g, ins, abstract, recv, args, sig)
			if !g.dead && !g.cond.IsFalse() {
				var rv []Val
				switch x := r.(type) {
				case nil:
				case TupleVal:
					rv = []Val(x)
				default:
					rv = []Val{x}
				}
				states = append(states, g)
				results = append(results, rv)
			}
		}
	}
	if len(states) == 0 {
		st.cond = tb.False()
		st.dead = true
		return e.freshOf(st, "dead", sig.Results())
	}
	merged := e.mergeStates(states)
	n := len(results[0])
	res := make([]Val, n)
	for i := 0; i < n; i++ {
		var acc Val
		for j := range states {
			v := results[j][i]
			if acc == nil {
				acc = v
				continue
			}
			at, ok1 := e.valTerm(acc)
			vt, ok2 := e.valTerm(v)
			if !ok1 || !ok2 {
				unsupported("dispatch: cannot merge results")
			}
			acc = e.rewrap(tb.Ite(states[j].cond, vt, at), v, acc)
		}
		res[i] = acc
	}
	cond := st.cond
	*st = *merged
	_ = cond
	return packResults(res)
}

// ifaceContract: the abstract contract of an interface method (or function type). Each package
// states its own; the one of the package whose function is being verified wins.
func (e *Engine) ifaceContract(key string) (*Contract, bool) {
	if e.curPkg != "" {
		if c, ok := e.ifContractPkg[e.curPkg+"\x00"+key]; ok {
			return c, true
		}
	}
	c, ok := e.ifContract[key]
	return c, ok
}

// havocCaptured: a closure handed to code that is not executed here (an abstracted callee) may be
// run by it any number of times, so the local variables it captures can hold anything afterwards.
func (e *Engine) havocCaptured(fr *Frame, st *State, args []Val) {
	seen := map[*Cell]bool{}
	var visit func(v Val, d int)
	visit = func(v Val, d int) {
		fv, ok := v.(*FuncVal)
		if !ok || d > 4 {
			return
		}
		for _, b := range fv.Bindings {
			switch x := b.(type) {
			case *PtrVal:
				if x.Kind == KCell && x.Cell != nil && !seen[x.Cell] {
					seen[x.Cell] = true
					nv := e.tb.Fresh("cap_"+x.Cell.name, e.sortOf(x.Cell.typ))
					st.cells[x.Cell] = nv
					e.assumeWF(fr, st, nv, x.Cell.typ)
					// a captured variable that itself holds a closure
					if cur, ok := st.cells[x.Cell]; ok {
						_ = cur
					}
				}
			case *FuncVal:
				visit(x, d+1)
			}
		}
	}
	for _, a := range args {
		visit(a, 0)
	}
}

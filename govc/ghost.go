package main

// Ghost vocabulary (stubs declared in the contract files, interpreted here), quantifier
// handling, facts about package-level variables.

import (
	"go/constant"
	"fmt"
	"os"
	"sort"
	"go/ast"
	"go/token"
	"go/types"
	"strconv"
	"strings"

	"golang.org/x/tools/go/ssa"
)

func startsWithGhostOld(fn *ssa.Function) bool {
	if len(fn.Blocks) == 0 {
		return false
	}
	for _, ins := range fn.Blocks[0].Instrs {
		switch c := ins.(type) {
		case *ssa.Call:
			if _, ok := c.Call.Value.(*ssa.Builtin); ok {
				continue // ssa:deferstack
			}
			if f, ok := c.Call.Value.(*ssa.Function); ok && f.Name() == "ghostOld" {
				return true
			}
			return false
		case *ssa.Alloc, *ssa.Store, *ssa.DebugRef:
			continue
		default:
			return false
		}
	}
	return false
}

func (e *Engine) streamHeap(st *State, n string) *Term {
	if n == "out_data" {
		return e.heap(st, n, ArraySort(SRef, SBytes))
	}
	return e.heap(st, n, ArraySort(SRef, SBV64))
}

// intrinsic handles ghost functions and a few library functions modelled directly.
func (e *Engine) intrinsic(fr *Frame, st *State, ins ssa.Instruction, fn *ssa.Function, bindings []Val, args []Val) (Val, bool) {
	tb := e.tb
	name := fn.Name()
	if fn.Parent() != nil && startsWithGhostOld(fn) {
		if fr.old == nil {
			unsupported("old() used where no old state exists")
		}
		tmp := st.clone()
		if os.Getenv("GOVC_DEBUG") != "" {
			fmt.Fprintf(os.Stderr, "ghostOld in %s: old heaps %v cur heaps %v\n", fn.Name(), len(fr.old.heaps), len(st.heaps))
			for k, v := range fr.old.heaps { fmt.Fprintf(os.Stderr, "   old %s = %s | cur = %s\n", k, e.tb.Show(v), e.tb.Show(st.heaps[k])) }
		}
		tmp.heaps = map[string]*Term{}
		for k, v := range fr.old.heaps {
			tmp.heaps[k] = v
		}
		tmp.clock = fr.old.clock
		child := e.newFrame(fn, fr)
		child.ghost = true
		for i, fv := range fn.FreeVars {
			child.vals[fv] = bindings[i]
		}
		e.bindParams(child, args)
		res, _ := e.runBody(child, tmp)
		return packResults(res), true
	}
	pkgPath := ""
	if fn.Pkg != nil {
		pkgPath = fn.Pkg.Pkg.Path()
	}
	full := pkgPath + "." + name
	if fn.Signature.Recv() != nil {
		full = fnKey(fn)
	}
	isOurs := strings.HasPrefix(pkgPath, "github.com/gobwas/ws")
	if isOurs && fn.Signature.Recv() == nil && strings.HasPrefix(name, "eqv") && len(args) == 2 {
		// eqvXxx(a, b): equality of two values of a type Go cannot compare with == (structs holding slices)
		a, ok1 := args[0].(*Term)
		b, ok2 := args[1].(*Term)
		if ok1 && ok2 && a.Sort == b.Sort {
			return tb.Eq(a, b), true
		}
	}
	if isOurs && fn.Signature.Recv() == nil && strings.HasPrefix(name, "uf") && len(name) > 2 && name[2] >= 'A' && name[2] <= 'Z' && fn.Signature.Results().Len() == 1 {
		// ufXxx(...): an uninterpreted specification function
		var ts []*Term
		var ss []string
		for _, a := range args {
			t, ok := a.(*Term)
			if !ok {
				if p, isP := a.(*PtrVal); isP {
					t = e.ptrTerm(p)
				} else if f, isF := a.(*FuncVal); isF {
					t = e.fnTerm(f)
				} else {
					unsupported("uninterpreted function %s: argument is not a term", name)
				}
			}
			ts = append(ts, t)
			ss = append(ss, string(t.Sort))
		}
		rs := e.sortOf(fn.Signature.Results().At(0).Type())
		ufn := "spec_" + sanitize(shortPkg(pkgPath)+"_"+name)
		tb.DeclareUF(ufn, "("+strings.Join(ss, " ")+") "+string(rs))
		return e.asVal(tb.App(ufn, rs, ts...), fn.Signature.Results().At(0).Type()), true
	}
	if isOurs && fn.Signature.Recv() == nil && strings.HasSuffix(name, "Fold") && len(args) == 3 && fn.Pkg != nil {
		if step := fn.Pkg.Func(name + "Step"); step != nil {
			return e.foldIntrinsic(fr, st, fn, step, args), true
		}
	}
	if isOurs && fn.Signature.Recv() == nil {
		// the B-suffixed variants take an io.ByteReader (same ghost stream, keyed by the dynamic value)
		switch name {
		case "inPosB", "inEndB", "inByteB", "inErrB":
			name = strings.TrimSuffix(name, "B")
		}
		switch name {
		case "ghostOld":
			return nil, true
		case "forall", "exists":
			lo, hi := args[0].(*Term), args[1].(*Term)
			f, ok := args[2].(*FuncVal)
			if !ok {
				unsupported("%s needs a function literal", name)
			}
			k := tb.BoundVar("k", SBV64)
			child := e.newFrame(f.Fn, fr)
			child.ghost = true
			child.bound = true
			for i, fv := range f.Fn.FreeVars {
				child.vals[fv] = f.Bindings[i]
			}
			e.bindParams(child, []Val{k})
			tmp := st.clone()
			res, _ := e.runBody(child, tmp)
			body := res[0].(*Term)
			rng := tb.And(tb.BVCmp("bvsle", lo, k), tb.BVCmp("bvslt", k, hi))
			if name == "forall" {
				return tb.Forall([]*Term{k}, tb.Implies(rng, body)), true
			}
			return tb.Not(tb.Forall([]*Term{k}, tb.Implies(rng, tb.Not(body)))), true
		case "sameBase":
			return tb.Eq(e.sBase(args[0].(*Term)), e.sBase(args[1].(*Term))), true
		case "sameSlice":
			return tb.Eq(args[0].(*Term), args[1].(*Term)), true
		case "sameFunc":
			// identity of two function values (Go has no == on them)
			var ts []*Term
			for _, a := range args[:2] {
				switch x := a.(type) {
				case *Term:
					ts = append(ts, x)
				case *FuncVal:
					ts = append(ts, e.fnTerm(x))
				default:
					unsupported("sameFunc: argument is not a function value")
				}
			}
			return tb.Eq(ts[0], ts[1]), true
		case "offOf":
			return e.sOff(args[0].(*Term)), true
		case "strViewOf":
			s, b := args[0].(*Term), args[1].(*Term)
			return tb.Eq(tb.Acc(s, 0), e.sBase(b)), true
		case "fresh":
			if fr.old == nil {
				unsupported("fresh() needs an old state")
			}
			return tb.IntCmp(">=", tb.RootID(e.sBase(args[0].(*Term))), fr.old.clock), true
		case "rangeIdx":
			// rangeIdx(): the hidden index of the (single) range loop of the function under
			// verification: -1 before the first iteration, then the index last visited
			var found *Term
			n := 0
			for c, v := range st.cells {
				if c.name == "rangeindex" && v.Sort == SBV64 {
					found = v
					n++
				}
			}
			if n != 1 {
				unsupported("rangeIdx(): %d range loops in scope", n)
			}
			return found, true
		case "freshObj":
			// freshObj(p): the object p points to was allocated during this call (p is passed as interface{})
			if fr.old == nil {
				unsupported("freshObj() needs an old state")
			}
			return tb.IntCmp(">=", tb.RootID(tb.Acc(args[0].(*Term), 1)), fr.old.clock), true
		case "freshStr":
			if fr.old == nil {
				unsupported("freshStr() needs an old state")
			}
			b := tb.Acc(args[0].(*Term), 0)
			return tb.Or(tb.IntCmp(">=", tb.RootID(b), fr.old.clock), tb.mk("(_ is lit)", SBool, "", nil, b), tb.Eq(tb.Acc(args[0].(*Term), 2), tb.BV(0, 64))), true
		case "inPos", "outLen", "outCalls":
			n := map[string]string{"inPos": "in_pos", "outLen": "out_len", "outCalls": "out_calls"}[name]
			v := tb.Select(e.streamHeap(st, n), tb.Acc(args[0].(*Term), 1))
			// assumption: ghost stream positions and call counts stay within [0, 2^61] in every state
			if !v.open && v.Op != "bvlit" {
				e.pendingFacts = append(e.pendingFacts, tb.And(tb.BVCmp("bvsle", tb.BV(0, 64), v), tb.BVCmp("bvsle", v, tb.BV(1<<61, 64))))
			}
			return v, true
		case "inEnd":
			tb.DeclareUF("in_end", "(Ref) (_ BitVec 64)")
			v := tb.App("in_end", SBV64, tb.Acc(args[0].(*Term), 1))
			if !v.open {
				e.pendingFacts = append(e.pendingFacts, tb.And(tb.BVCmp("bvsle", tb.BV(0, 64), v), tb.BVCmp("bvsle", v, tb.BV(1<<61, 64))))
			}
			return v, true
		case "inByte":
			tb.DeclareUF("in_data", "(Ref) "+string(SBytes))
			return tb.Select(tb.App("in_data", SBytes, tb.Acc(args[0].(*Term), 1)), args[1].(*Term)), true
		case "inErr":
			tb.DeclareUF("in_err", "(Ref) Iface")
			return tb.App("in_err", SIface, tb.Acc(args[0].(*Term), 1)), true
		case "outByte":
			return tb.Select(tb.Select(e.streamHeap(st, "out_data"), tb.Acc(args[0].(*Term), 1)), args[1].(*Term)), true
		case "iteInt", "iteByte", "iteBool", "iteInt64":
			return tb.Ite(args[0].(*Term), args[1].(*Term), args[2].(*Term)), true
		case "validUTF8":
			return e.utf8Valid(st, args[0].(*Term)), true
		case "isNilSlice":
			return tb.Eq(e.sBase(args[0].(*Term)), tb.RefNil()), true
		case "dynTypeIs":
			// dynTypeIs(x, "pkg.T") / "*pkg.T"
			x := args[0].(*Term)
			s := args[1].(*Term)
			if s.Op == "ctor" && s.Args[0].Op == "ctor" && s.Args[0].Name == "lit" {
				id := int(s.Args[0].Args[0].Val.Int64())
				want := e.strLitList[id-1]
				for k, tag := range e.typeTags {
					if strings.ReplaceAll(strings.ReplaceAll(k, "github.com/gobwas/ws/", ""), "github.com/gobwas/", "") == want || k == want {
						return tb.Eq(tb.Acc(x, 0), tb.Int(int64(tag))), true
					}
				}
				// type never boxed so far: register lazily by name lookup
				if t := e.lookupTypeByName(want); t != nil {
					return tb.Eq(tb.Acc(x, 0), tb.Int(int64(e.typeTag(t)))), true
				}
			}
			unsupported("dynTypeIs: unknown type")
		case "isFoldPlaceholder":
			return tb.False(), true
		case "notPartOf":
			// the backing array of b is not (part of) the object x points to
			b := args[0].(*Term)
			x := args[1].(*Term)
			return tb.Not(tb.Eq(tb.RootID(e.sBase(b)), tb.RootID(tb.Acc(x, 1)))), true
		case "refOf":
			return tb.Acc(args[0].(*Term), 1), true
		}
	}
	switch full {
	case "unicode/utf8.ValidString":
		return e.utf8Valid(st, args[0].(*Term)), true
	case "unicode/utf8.Valid":
		s := args[0].(*Term)
		tb.DeclareUF("utf8valid", "("+string(SBytes)+" (_ BitVec 64) (_ BitVec 64)) Bool")
		return tb.App("utf8valid", SBool, e.region(st, SBV8, e.sBase(s)), e.sOff(s), e.sLen(s)), true
	case "math/rand.Uint32":
		return tb.Fresh("rand", SBV32), true
	case "github.com/gobwas/ws.btsToString":
		b := args[0].(*Term)
		return tb.Ctor("Str", e.sBase(b), e.sOff(b), e.sLen(b)), true
	case "github.com/gobwas/ws.strToBytes":
		s := args[0].(*Term)
		return tb.Ctor("Slice", tb.Acc(s, 0), tb.Acc(s, 1), tb.Acc(s, 2), tb.Acc(s, 2)), true
	}
	return nil, false
}

func (e *Engine) lookupTypeByName(want string) types.Type {
	ptr := strings.HasPrefix(want, "*")
	w := strings.TrimPrefix(want, "*")
	i := strings.LastIndex(w, ".")
	if i < 0 {
		return nil
	}
	pk, tn := w[:i], w[i+1:]
	for path, sp := range e.ssaPkgs {
		if shortPkg(path) == pk || path == pk {
			if o := sp.Pkg.Scope().Lookup(tn); o != nil {
				if ptr {
					return types.NewPointer(o.Type())
				}
				return o.Type()
			}
		}
	}
	for _, sp := range e.prog.AllPackages() {
		if sp.Pkg.Name() == pk || sp.Pkg.Path() == pk {
			if o := sp.Pkg.Scope().Lookup(tn); o != nil {
				if ptr {
					return types.NewPointer(o.Type())
				}
				return o.Type()
			}
		}
	}
	return nil
}

func (e *Engine) utf8Valid(st *State, s *Term) *Term {
	tb := e.tb
	tb.DeclareUF("utf8valid", "("+string(SBytes)+" (_ BitVec 64) (_ BitVec 64)) Bool")
	base := tb.Acc(s, 0)
	lit := tb.App("LIT", ArraySort(SRef, SBytes))
	var arr *Term
	if base.Op == "ctor" && base.Name == "lit" {
		arr = tb.Select(lit, base)
	} else if base.Op == "ctor" {
		arr = e.region(st, SBV8, base)
	} else {
		arr = tb.Ite(tb.mk("(_ is lit)", SBool, "", nil, base), tb.Select(lit, base), e.region(st, SBV8, base))
	}
	// the empty string is valid
	return tb.Or(tb.Eq(tb.Acc(s, 2), tb.BV(0, 64)), tb.App("utf8valid", SBool, arr, tb.Acc(s, 1), tb.Acc(s, 2)))
}

// ---------- quantifier utilities

// withPatterns attaches select-patterns to universally quantified assumptions.
func (e *Engine) withPatterns(t *Term) *Term {
	tb := e.tb
	switch t.Op {
	case "and":
		args := make([]*Term, len(t.Args))
		for i, a := range t.Args {
			args[i] = e.withPatterns(a)
		}
		return tb.And(args...)
	case "=>":
		return tb.Implies(t.Args[0], e.withPatterns(t.Args[1]))
	case "or":
		args := make([]*Term, len(t.Args))
		for i, a := range t.Args {
			args[i] = e.withPatterns(a)
		}
		return tb.Or(args...)
	case "forall":
		if len(t.Pat) > 0 {
			return t
		}
		pats := e.findPatterns(t.Args[0], t.Bnd)
		if len(pats) == 0 {
			return t
		}
		return tb.Forall(t.Bnd, t.Args[0], pats...)
	}
	return t
}

// findPatterns collects select terms whose index mentions a bound variable (each is an alternative pattern).
func (e *Engine) findPatterns(body *Term, bnd []*Term) []*Term {
	var out []*Term
	seen := map[*Term]bool{}
	mentions := func(t *Term) bool {
		found := false
		var rec func(t *Term)
		vis := map[*Term]bool{}
		rec = func(t *Term) {
			if found || vis[t] || !t.open {
				return
			}
			vis[t] = true
			if t.Op == "var" {
				for _, b := range bnd {
					if b == t {
						found = true
					}
				}
				return
			}
			for _, a := range t.Args {
				rec(a)
			}
		}
		rec(t)
		return found
	}
	var rec func(t *Term)
	vis := map[*Term]bool{}
	rec = func(t *Term) {
		if vis[t] || !t.open {
			return
		}
		vis[t] = true
		if t.Op == "select" && mentions(t.Args[1]) && !mentions(t.Args[0]) && !seen[t] && !hasIte(t) {
			// avoid patterns with interpreted arithmetic only when something better exists: keep all
			seen[t] = true
			out = append(out, t)
		}
		if t.Op == "forall" {
			return
		}
		for _, a := range t.Args {
			rec(a)
		}
	}
	rec(body)
	if len(out) > 6 {
		out = out[:6]
	}
	return out
}

// skolemize removes universal quantifiers in positive positions of a goal.
func (e *Engine) skolemize(t *Term) *Term {
	tb := e.tb
	switch t.Op {
	case "and":
		args := make([]*Term, len(t.Args))
		for i, a := range t.Args {
			args[i] = e.skolemize(a)
		}
		return tb.And(args...)
	case "=>":
		return tb.Implies(e.withPatterns(t.Args[0]), e.skolemize(t.Args[1]))
	case "or":
		args := make([]*Term, len(t.Args))
		for i, a := range t.Args {
			args[i] = e.skolemize(a)
		}
		return tb.Or(args...)
	case "ite":
		if t.Sort == SBool {
			return tb.Ite(t.Args[0], e.skolemize(t.Args[1]), e.skolemize(t.Args[2]))
		}
	case "forall":
		m := map[*Term]*Term{}
		for _, b := range t.Bnd {
			m[b] = tb.Fresh("sk_"+strings.SplitN(b.Name, "?", 2)[0], b.Sort)
		}
		return e.skolemize(tb.Subst(t.Args[0], m))
	case "not":
		return tb.Not(e.withPatterns(t.Args[0]))
	}
	return t
}

// ---------- package-level variables

// addGlobalFacts adds what is known about a package-level variable from its initialiser.
func (e *Engine) addGlobalFacts(g *ssa.Global, c *Term, t types.Type) {
	tb := e.tb
	if e.globalAssigned(g) {
		return // contents unknown: something in the package writes to it
	}
	// find the declaration
	var spec *ast.ValueSpec
	var idx int
	pkg := e.astPkgs[g.Pkg.Pkg.Path()]
	if pkg != nil {
		for _, f := range pkg {
			for _, d := range f.Decls {
				gd, ok := d.(*ast.GenDecl)
				if !ok || gd.Tok != token.VAR {
					continue
				}
				for _, s := range gd.Specs {
					vs := s.(*ast.ValueSpec)
					for i, n := range vs.Names {
						if n.Name == g.Name() {
							spec, idx = vs, i
						}
					}
				}
			}
		}
	}
	switch u := t.Underlying().(type) {
	case *types.Interface:
		// package-level error values: non-nil, pairwise distinct (assumption, listed in evidence)
		if spec != nil && len(spec.Values) > idx {
			// non-nil; its dynamic type is none of the types this run boxes itself (tags >= 100000 are
			// reserved for dynamic types the engine does not know)
			std := false
			if ce, ok := spec.Values[idx].(*ast.CallExpr); ok {
				if se, ok := ce.Fun.(*ast.SelectorExpr); ok {
					if id, ok := se.X.(*ast.Ident); ok && ((id.Name == "errors" && se.Sel.Name == "New") || (id.Name == "fmt" && se.Sel.Name == "Errorf")) {
						std = true
					}
				}
			}
			if std {
				e.addGlobalFact(tb.IntCmp(">=", tb.Acc(c, 0), tb.Int(100000)))
			} else {
				e.addGlobalFact(tb.Not(tb.Eq(tb.Acc(c, 0), tb.Int(0))))
			}
			e.errGlobals = append(e.errGlobals, c)
		}
	case *types.Basic:
		if u.Info()&types.IsString != 0 && spec != nil && len(spec.Values) > idx {
			// named string type constants such as ProtocolError("...")
		}
	case *types.Array:
		if spec == nil || len(spec.Values) <= idx {
			return
		}
		cl, ok := spec.Values[idx].(*ast.CompositeLit)
		if !ok {
			return
		}
		es := e.sortOf(u.Elem())
		w := es.Width()
		if w == 0 {
			return
		}
		pos := int64(0)
		n := int64(0)
		for _, el := range cl.Elts {
			v := el
			if kv, ok := el.(*ast.KeyValueExpr); ok {
				if bl, ok := kv.Key.(*ast.BasicLit); ok {
					p, _ := strconv.ParseInt(bl.Value, 0, 64)
					pos = p
				}
				v = kv.Value
			}
			bl, ok := v.(*ast.BasicLit)
			if !ok {
				return
			}
			iv, err := strconv.ParseInt(bl.Value, 0, 64)
			if err != nil {
				return
			}
			e.addGlobalFact(tb.Eq(tb.mk("select", es, "", nil, c, tb.BV(pos, 64)), tb.BV(iv, w)))
			pos++
			n++
		}
	case *types.Struct:
		// e.g. StatusRangeNotInUse = StatusCodeRange{0, 999}
		if spec == nil || len(spec.Values) <= idx {
			return
		}
		cl, ok := spec.Values[idx].(*ast.CompositeLit)
		if !ok {
			return
		}
		for i, el := range cl.Elts {
			fi := i
			v := el
			if kv, ok := el.(*ast.KeyValueExpr); ok {
				id, ok := kv.Key.(*ast.Ident)
				if !ok {
					return
				}
				fi = -1
				for j := 0; j < u.NumFields(); j++ {
					if u.Field(j).Name() == id.Name {
						fi = j
					}
				}
				v = kv.Value
			}
			bl, ok := v.(*ast.BasicLit)
			if !ok || fi < 0 {
				continue
			}
			iv, err := strconv.ParseInt(bl.Value, 0, 64)
			if err != nil {
				continue
			}
			fs := e.sortOf(u.Field(fi).Type())
			if fs.Width() == 0 {
				continue
			}
			e.addGlobalFact(tb.Eq(tb.Acc(c, fi), tb.BV(iv, fs.Width())))
		}
	}
}


// findGlobalSpec locates the declaration of a package-level variable.
func (e *Engine) findGlobalSpec(g *ssa.Global) (*ast.ValueSpec, int) {
	pkg := e.astPkgs[g.Pkg.Pkg.Path()]
	for _, f := range pkg {
		for _, d := range f.Decls {
			gd, ok := d.(*ast.GenDecl)
			if !ok || gd.Tok != token.VAR {
				continue
			}
			for _, s := range gd.Specs {
				vs := s.(*ast.ValueSpec)
				for i, n := range vs.Names {
					if n.Name == g.Name() {
						return vs, i
					}
				}
			}
		}
	}
	return nil, 0
}

// globalStringLit: package-level variables of string kind initialised by a literal (possibly through
// a type conversion such as ProtocolError("...")) are read as that literal (assumed immutable).
func (e *Engine) globalStringLit(g *ssa.Global) (string, bool) {
	t := g.Type().(*types.Pointer).Elem()
	b, ok := t.Underlying().(*types.Basic)
	if !ok || b.Info()&types.IsString == 0 {
		return "", false
	}
	spec, idx := e.findGlobalSpec(g)
	if spec == nil || len(spec.Values) <= idx {
		return "", false
	}
	v := spec.Values[idx]
	for {
		if p, ok := v.(*ast.ParenExpr); ok {
			v = p.X
			continue
		}
		if c, ok := v.(*ast.CallExpr); ok && len(c.Args) == 1 {
			v = c.Args[0]
			continue
		}
		break
	}
	bl, ok := v.(*ast.BasicLit)
	if !ok || bl.Kind != token.STRING {
		return "", false
	}
	s, err := strconv.Unquote(bl.Value)
	if err != nil {
		return "", false
	}
	return s, true
}


// globalAssigned: some statement of the package assigns (part of) the variable or takes its address.
func (e *Engine) globalAssigned(g *ssa.Global) bool {
	name := g.Name()
	root := func(x ast.Expr) string {
		for {
			switch y := x.(type) {
			case *ast.IndexExpr:
				x = y.X
			case *ast.SelectorExpr:
				x = y.X
			case *ast.ParenExpr:
				x = y.X
			case *ast.StarExpr:
				x = y.X
			case *ast.Ident:
				return y.Name
			default:
				return ""
			}
		}
	}
	found := false
	for _, f := range e.astPkgs[g.Pkg.Pkg.Path()] {
		ast.Inspect(f, func(n ast.Node) bool {
			switch n := n.(type) {
			case *ast.AssignStmt:
				if n.Tok != token.DEFINE {
					for _, l := range n.Lhs {
						if root(l) == name {
							found = true
						}
					}
				}
			case *ast.IncDecStmt:
				if root(n.X) == name {
					found = true
				}
			case *ast.UnaryExpr:
				if n.Op == token.AND && root(n.X) == name {
					found = true
				}
			case *ast.RangeStmt:
				if n.Tok == token.ASSIGN && (n.Key != nil && root(n.Key) == name || n.Value != nil && root(n.Value) == name) {
					found = true
				}
			}
			return !found
		})
	}
	return found
}


// foldIntrinsic interprets  XFold(s, p, n)  as the result of feeding p[0:n) to the step function
// XFoldStep starting from s: an uninterpreted function together with its defining one-step
// unfolding, added for every occurrence that evaluation creates (not for the occurrences the
// unfolding itself introduces). The unfolding facts are the definition of a primitive-recursive
// function, hence consistent.
func (e *Engine) foldIntrinsic(fr *Frame, st *State, fn, step *ssa.Function, args []Val) *Term {
	tb := e.tb
	s0 := args[0].(*Term)
	p := args[1].(*Term)
	n := args[2].(*Term)
	uf := "fold_" + sanitize(fn.Name())
	tb.DeclareUF(uf, "("+string(s0.Sort)+" "+string(SBytes)+" (_ BitVec 64) (_ BitVec 64)) "+string(s0.Sort))
	arr := e.region(st, SBV8, e.sBase(p))
	off := e.sOff(p)
	mk := func(k *Term) *Term { return tb.App(uf, s0.Sort, s0, arr, off, k) }
	t := mk(n)
	if t.open || n.open || s0.open {
		return t
	}
	if e.foldUnfold == nil {
		e.foldUnfold = map[string]func(t *Term){}
	}
	if e.foldUnfold[uf] == nil {
		stClone := st.clone()
		e.foldUnfold[uf] = func(t *Term) {
			if e.foldDone == nil {
				e.foldDone = map[*Term]bool{}
			}
			if e.foldDone[t] || t.open {
				return
			}
			e.foldDone[t] = true
			s0, arr, off, n := t.Args[0], t.Args[1], t.Args[2], t.Args[3]
			prev := tb.App(uf, s0.Sort, s0, arr, off, tb.BVBin("bvsub", n, tb.BV(1, 64)))
			b := tb.Select(arr, tb.BVBin("bvadd", off, tb.BVBin("bvsub", n, tb.BV(1, 64))))
			child := e.newFrame(step, nil)
			child.ghost = true
			e.bindParams(child, []Val{prev, b})
			tmp := stClone.clone()
			tmp.cond = tb.True()
			e.ghostDepth++
			res, _ := func() ([]Val, *State) {
				defer func() { e.ghostDepth-- }()
				return e.runBody(child, tmp)
			}()
			stepped := res[0].(*Term)
			z := tb.BV(0, 64)
			e.pendingFacts = append(e.pendingFacts,
				tb.Implies(tb.BVCmp("bvsle", n, z), tb.Eq(t, s0)),
				tb.Implies(tb.BVCmp("bvsgt", n, z), tb.Eq(t, stepped)))
		}
	}
	e.foldUnfold[uf](t)
	return t
}

// unfoldNewFolds adds the one-step unfolding for every closed fold application inside t.
func (e *Engine) unfoldNewFolds(t *Term) {
	if len(e.foldUnfold) == 0 {
		return
	}
	vis := map[*Term]bool{}
	var rec func(t *Term)
	rec = func(t *Term) {
		if vis[t] {
			return
		}
		vis[t] = true
		if t.Op == "app" && !t.open {
			if f, ok := e.foldUnfold[t.Name]; ok {
				f(t)
			}
		}
		for _, a := range t.Args {
			rec(a)
		}
	}
	rec(t)
}

// existsHints strengthens a goal: every existential  exists j in [lo,hi): body(j)  in positive position
// is offered the instantiations j := v and j := v+1 for the integer variables v of the current frame.
// Proving any instance proves the existential, so the replacement goal implies the original one.
func (e *Engine) existsHints(fr *Frame, st *State, g *Term) *Term {
	tb := e.tb
	var cands []*Term
	seen := map[*Term]bool{}
	var cells []*Cell
	for c, v := range st.cells {
		if v.Sort == SBV64 && c.key != nil && c.name != "" && !strings.Contains(c.name, "$") {
			cells = append(cells, c)
		}
	}
	sort.Slice(cells, func(i, j int) bool { return cells[i].name < cells[j].name })
	// small integer constants of the function's own code serve as offsets (v+5 for an index found in b[5:])
	offs := []int64{0, 1}
	offSeen := map[int64]bool{0: true, 1: true}
	for _, b := range fr.fn.Blocks {
		for _, ins := range b.Instrs {
			for _, op := range ins.Operands(nil) {
				if op == nil || *op == nil {
					continue
				}
				if c, ok := (*op).(*ssa.Const); ok && c.Value != nil && c.Value.Kind() == constant.Int {
					if v, ok := constant.Int64Val(c.Value); ok && v >= 2 && v <= 16 && !offSeen[v] && len(offs) < 6 {
						offSeen[v] = true
						offs = append(offs, v)
					}
				}
			}
		}
	}
	// lengths of the frame's slice variables are witnesses too (an index right after a field)
	var scells []*Cell
	for c, v := range st.cells {
		if v.Sort == SSlice && c.key != nil && c.name != "" && !strings.Contains(c.name, "$") {
			scells = append(scells, c)
		}
	}
	sort.Slice(scells, func(i, j int) bool { return scells[i].name < scells[j].name })
	for _, c := range scells {
		x := e.sLen(st.cells[c])
		if !seen[x] && !x.open && x.Op != "bvlit" {
			seen[x] = true
			cands = append(cands, x)
		}
	}
	for _, c := range cells {
		v := st.cells[c]
		for _, o := range offs {
			x := v
			if o != 0 {
				x = tb.BVBin("bvadd", v, tb.BV(o, 64))
			}
			if !seen[x] && !x.open && x.Op != "bvlit" {
				seen[x] = true
				cands = append(cands, x)
			}
		}
	}
	if len(cands) > 60 {
		cands = cands[:60]
	}
	// literal witnesses: the code's small constants and their successors
	for _, o := range offs {
		for _, x := range []*Term{tb.BV(o, 64), tb.BV(o+1, 64)} {
			if !seen[x] {
				seen[x] = true
				cands = append(cands, x)
			}
		}
	}
	if os.Getenv("GOVC_DEBUG") != "" {
		fmt.Fprintf(os.Stderr, "EXISTS-HINTS %d candidates:", len(cands)); for _, c := range cells { fmt.Fprintf(os.Stderr, " %s", c.name) }; fmt.Fprintln(os.Stderr)
	}
	var rec func(t *Term, pos bool) *Term
	rec = func(t *Term, pos bool) *Term {
		switch t.Op {
		case "and":
			args := make([]*Term, len(t.Args))
			for i, a := range t.Args {
				args[i] = rec(a, pos)
			}
			return tb.And(args...)
		case "or":
			args := make([]*Term, len(t.Args))
			for i, a := range t.Args {
				args[i] = rec(a, pos)
			}
			return tb.Or(args...)
		case "=>":
			return tb.Implies(t.Args[0], rec(t.Args[1], pos))
		case "not":
			in := t.Args[0]
			if pos && in.Op == "forall" && len(in.Bnd) == 1 && in.Bnd[0].Sort == SBV64 {
				// not (forall j. rng => not body)  ==  exists j. rng and body
				alts := []*Term{t}
				for _, c := range cands {
					inst := tb.Not(tb.Subst(in.Args[0], map[*Term]*Term{in.Bnd[0]: c}))
					if !inst.open {
						e.unfoldNewFolds(inst)
						alts = append(alts, inst)
					}
				}
				return tb.Or(alts...)
			}
		}
		return t
	}
	out := rec(g, true)
	if e.ghostDepth == 0 && len(e.pendingFacts) > 0 {
		for _, f := range e.pendingFacts {
			e.addGlobalFact(f)
		}
		e.pendingFacts = nil
	}
	return out
}


// globalBytesLit: package-level `var x = []byte("literal")`.
func (e *Engine) globalBytesLit(g *ssa.Global) (string, bool) {
	t := g.Type().(*types.Pointer).Elem()
	if !isByteSlice(t) {
		return "", false
	}
	spec, idx := e.findGlobalSpec(g)
	if spec == nil || len(spec.Values) <= idx {
		return "", false
	}
	c, ok := spec.Values[idx].(*ast.CallExpr)
	if !ok || len(c.Args) != 1 {
		return "", false
	}
	at, ok := c.Fun.(*ast.ArrayType)
	if !ok || at.Len != nil {
		return "", false
	}
	if id, ok := at.Elt.(*ast.Ident); !ok || id.Name != "byte" {
		return "", false
	}
	bl, ok := c.Args[0].(*ast.BasicLit)
	if !ok || bl.Kind != token.STRING {
		return "", false
	}
	s, err := strconv.Unquote(bl.Value)
	if err != nil {
		return "", false
	}
	return s, true
}

// hasIte: terms with if-then-else (or boolean structure) cannot be used in patterns; z3 drops the
// whole annotation with a warning and falls back to model-based instantiation.
func hasIte(t *Term) bool {
	found := false
	vis := map[*Term]bool{}
	var rec func(t *Term)
	rec = func(t *Term) {
		if found || vis[t] {
			return
		}
		vis[t] = true
		switch t.Op {
		case "ite", "and", "or", "not", "=>", "=", "bvslt", "bvult", "distinct":
			found = true
			return
		}
		for _, a := range t.Args {
			rec(a)
		}
	}
	rec(t)
	return found
}

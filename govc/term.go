package main

// Hash-consed SMT terms with light simplification, and an SMT-LIB2 printer.

import (
	"fmt"
	"math/big"
	"sort"
	"strings"
)

type Sort string

const (
	SBool  Sort = "Bool"
	SInt   Sort = "Int"
	SBV8   Sort = "(_ BitVec 8)"
	SBV16  Sort = "(_ BitVec 16)"
	SBV32  Sort = "(_ BitVec 32)"
	SBV64  Sort = "(_ BitVec 64)"
	SRef   Sort = "Ref"
	SBytes Sort = "(Array (_ BitVec 64) (_ BitVec 8))"
	SSlice Sort = "Slice"
	SStr   Sort = "Str"
	SIface Sort = "Iface"
	SFn    Sort = "Fn"
	SOpq   Sort = "Opq"
)

func BVSort(w int) Sort {
	switch w {
	case 8:
		return SBV8
	case 16:
		return SBV16
	case 32:
		return SBV32
	case 64:
		return SBV64
	}
	return Sort(fmt.Sprintf("(_ BitVec %d)", w))
}

func (s Sort) Width() int {
	switch s {
	case SBV8:
		return 8
	case SBV16:
		return 16
	case SBV32:
		return 32
	case SBV64:
		return 64
	}
	var w int
	if n, _ := fmt.Sscanf(string(s), "(_ BitVec %d)", &w); n == 1 {
		return w
	}
	return 0
}

func ArraySort(idx, elem Sort) Sort { return Sort("(Array " + string(idx) + " " + string(elem) + ")") }

// ArrayElem returns the element sort of an array sort.
func (s Sort) ArrayParts() (idx, elem Sort, ok bool) {
	str := string(s)
	if !strings.HasPrefix(str, "(Array ") {
		return "", "", false
	}
	body := str[len("(Array ") : len(str)-1]
	// split body into two s-expressions
	depth := 0
	for i := 0; i < len(body); i++ {
		switch body[i] {
		case '(':
			depth++
		case ')':
			depth--
		case ' ':
			if depth == 0 {
				return Sort(body[:i]), Sort(body[i+1:]), true
			}
		}
	}
	return "", "", false
}

type Term struct {
	Op   string // operator, or "const" (free symbol), "bvlit", "intlit", "true", "false", "var" (bound)
	Args []*Term
	Sort Sort
	Name string   // for const/var; for quantifiers: unused
	Val  *big.Int // for bvlit/intlit
	id   int
	open bool    // contains a bound variable
	Bnd  []*Term // for forall/exists: bound vars
	Pat  []*Term // optional patterns for quantifiers
}

type TB struct {
	NewRefs  map[*Term]bool // reference terms known (from an assumed fresh() postcondition) to be allocated during the run
	Rewrite  map[*Term]*Term // oriented precondition equalities: entry-state load paths -> defining terms
	oldCache map[*Term]bool
	Known    map[*Term]bool // case assumptions: these Bool terms fold to their value while set
	selDepth int
	OldRefs map[*Term]bool // reference terms assumed to be allocated before the function under verification
	tab   map[string]*Term
	next  int
	fresh map[string]int
	// datatype declarations (struct sorts) in order of creation
	dtOrder []string
	dtDecl  map[string]*DTDecl
	// uninterpreted function declarations
	ufDecl  map[string]string
	ufOrder []string
}

type DTDecl struct {
	Name   string
	Ctor   string
	Fields []DTField
}
type DTField struct {
	Name string
	Sort Sort
}

func NewTB() *TB {
	tb := &TB{NewRefs: map[*Term]bool{}, OldRefs: map[*Term]bool{}, tab: map[string]*Term{}, fresh: map[string]int{}, dtDecl: map[string]*DTDecl{}, ufDecl: map[string]string{}}
	tb.DeclareDT(&DTDecl{Name: "Slice", Ctor: "mkSlice", Fields: []DTField{{"s.base", SRef}, {"s.off", SBV64}, {"s.len", SBV64}, {"s.cap", SBV64}}})
	tb.DeclareDT(&DTDecl{Name: "Str", Ctor: "mkStr", Fields: []DTField{{"t.base", SRef}, {"t.off", SBV64}, {"t.len", SBV64}}})
	tb.DeclareDT(&DTDecl{Name: "Iface", Ctor: "mkIface", Fields: []DTField{{"i.tag", SInt}, {"i.ref", SRef}}})
	return tb
}

func (tb *TB) DeclareDT(d *DTDecl) {
	if _, ok := tb.dtDecl[d.Name]; ok {
		return
	}
	tb.dtDecl[d.Name] = d
	tb.dtOrder = append(tb.dtOrder, d.Name)
}

func (tb *TB) DeclareUF(name, sig string) {
	if _, ok := tb.ufDecl[name]; ok {
		return
	}
	tb.ufDecl[name] = sig
	tb.ufOrder = append(tb.ufOrder, name)
}

func (tb *TB) key(op string, sort Sort, name string, val *big.Int, args []*Term, bnd []*Term) string {
	var sb strings.Builder
	sb.WriteString(op)
	sb.WriteByte('|')
	sb.WriteString(string(sort))
	sb.WriteByte('|')
	sb.WriteString(name)
	if val != nil {
		sb.WriteByte('#')
		sb.WriteString(val.String())
	}
	for _, a := range args {
		fmt.Fprintf(&sb, ",%d", a.id)
	}
	for _, a := range bnd {
		fmt.Fprintf(&sb, ";%d", a.id)
	}
	return sb.String()
}

func (tb *TB) mk(op string, sort Sort, name string, val *big.Int, args ...*Term) *Term {
	k := tb.key(op, sort, name, val, args, nil)
	if t, ok := tb.tab[k]; ok {
		if sort == SBool && len(tb.Known) > 0 {
			if v, ok := tb.Known[t]; ok {
				return tb.Bool(v)
			}
		}
		if len(tb.Rewrite) > 0 {
			if r, ok := tb.Rewrite[t]; ok {
				return r
			}
		}
		return t
	}
	tb.next++
	t := &Term{Op: op, Args: args, Sort: sort, Name: name, Val: val, id: tb.next}
	if op == "var" {
		t.open = true
	}
	for _, a := range args {
		if a.open {
			t.open = true
		}
	}
	tb.tab[k] = t
	return t
}

func (tb *TB) Const(name string, sort Sort) *Term { return tb.mk("const", sort, name, nil) }

// Fresh returns a new free constant with a unique name derived from hint.
func (tb *TB) Fresh(hint string, sort Sort) *Term {
	hint = sanitize(hint)
	tb.fresh[hint]++
	return tb.Const(fmt.Sprintf("%s!%d", hint, tb.fresh[hint]), sort)
}

func (tb *TB) BoundVar(hint string, sort Sort) *Term {
	hint = sanitize(hint)
	tb.fresh[hint]++
	return tb.mk("var", sort, fmt.Sprintf("%s?%d", hint, tb.fresh[hint]), nil)
}

func sanitize(s string) string {
	var sb strings.Builder
	for _, r := range s {
		if r >= 'a' && r <= 'z' || r >= 'A' && r <= 'Z' || r >= '0' && r <= '9' || r == '_' || r == '.' {
			sb.WriteRune(r)
		} else {
			sb.WriteByte('_')
		}
	}
	if sb.Len() == 0 {
		return "x"
	}
	return sb.String()
}

func (tb *TB) True() *Term  { return tb.mk("true", SBool, "", nil) }
func (tb *TB) False() *Term { return tb.mk("false", SBool, "", nil) }
func (tb *TB) Bool(b bool) *Term {
	if b {
		return tb.True()
	}
	return tb.False()
}

func (tb *TB) BV(v int64, w int) *Term {
	b := big.NewInt(v)
	return tb.BVBig(b, w)
}

func (tb *TB) BVU(v uint64, w int) *Term {
	b := new(big.Int).SetUint64(v)
	return tb.BVBig(b, w)
}

func (tb *TB) BVBig(b *big.Int, w int) *Term {
	m := new(big.Int).Lsh(big.NewInt(1), uint(w))
	v := new(big.Int).Mod(b, m)
	if v.Sign() < 0 {
		v.Add(v, m)
	}
	return tb.mk("bvlit", BVSort(w), "", v)
}

func (tb *TB) Int(v int64) *Term { return tb.mk("intlit", SInt, "", big.NewInt(v)) }

func (t *Term) IsTrue() bool  { return t.Op == "true" }
func (t *Term) IsFalse() bool { return t.Op == "false" }
func (t *Term) IsLit() bool   { return t.Op == "bvlit" || t.Op == "intlit" || t.Op == "true" || t.Op == "false" }

// signed value of a bv literal
func (t *Term) SVal() *big.Int {
	w := t.Sort.Width()
	v := new(big.Int).Set(t.Val)
	if v.Bit(w-1) == 1 {
		v.Sub(v, new(big.Int).Lsh(big.NewInt(1), uint(w)))
	}
	return v
}

func (tb *TB) Not(a *Term) *Term {
	switch {
	case a.IsTrue():
		return tb.False()
	case a.IsFalse():
		return tb.True()
	case a.Op == "not":
		return a.Args[0]
	}
	return tb.mk("not", SBool, "", nil, a)
}

func (tb *TB) And(as ...*Term) *Term {
	var out []*Term
	seen := map[int]bool{}
	for _, a := range as {
		if a.IsTrue() {
			continue
		}
		if a.IsFalse() {
			return tb.False()
		}
		if a.Op == "and" {
			for _, b := range a.Args {
				if !seen[b.id] {
					seen[b.id] = true
					out = append(out, b)
				}
			}
			continue
		}
		if !seen[a.id] {
			seen[a.id] = true
			out = append(out, a)
		}
	}
	for _, a := range out {
		if a.Op == "not" && seen[a.Args[0].id] {
			return tb.False()
		}
	}
	switch len(out) {
	case 0:
		return tb.True()
	case 1:
		return out[0]
	}
	return tb.mk("and", SBool, "", nil, out...)
}

func (tb *TB) Or(as ...*Term) *Term {
	var out []*Term
	seen := map[int]bool{}
	for _, a := range as {
		if a.IsFalse() {
			continue
		}
		if a.IsTrue() {
			return tb.True()
		}
		if a.Op == "or" {
			for _, b := range a.Args {
				if !seen[b.id] {
					seen[b.id] = true
					out = append(out, b)
				}
			}
			continue
		}
		if !seen[a.id] {
			seen[a.id] = true
			out = append(out, a)
		}
	}
	for _, a := range out {
		if a.Op == "not" && seen[a.Args[0].id] {
			return tb.True()
		}
	}
	switch len(out) {
	case 0:
		return tb.False()
	case 1:
		return out[0]
	}
	return tb.mk("or", SBool, "", nil, out...)
}

func (tb *TB) Implies(a, b *Term) *Term {
	if a.IsTrue() {
		return b
	}
	if a.IsFalse() || b.IsTrue() {
		return tb.True()
	}
	if b.IsFalse() {
		return tb.Not(a)
	}
	return tb.mk("=>", SBool, "", nil, a, b)
}

func (tb *TB) Ite(c, a, b *Term) *Term {
	if c.IsTrue() {
		return a
	}
	if c.IsFalse() {
		return b
	}
	if a == b {
		return a
	}
	if a.Sort != b.Sort {
		panic(fmt.Sprintf("ite sort mismatch %s vs %s", a.Sort, b.Sort))
	}
	if a.Sort == SBool {
		if a.IsTrue() && b.IsFalse() {
			return c
		}
		if a.IsFalse() && b.IsTrue() {
			return tb.Not(c)
		}
		if a.IsTrue() {
			return tb.Or(c, b)
		}
		if a.IsFalse() {
			return tb.And(tb.Not(c), b)
		}
		if b.IsTrue() {
			return tb.Or(tb.Not(c), a)
		}
		if b.IsFalse() {
			return tb.And(c, a)
		}
	}
	// ite(c, x, ite(c, y, z)) = ite(c, x, z)
	if b.Op == "ite" && b.Args[0] == c {
		b = b.Args[2]
	}
	if a.Op == "ite" && a.Args[0] == c {
		a = a.Args[1]
	}
	return tb.mk("ite", a.Sort, "", nil, c, a, b)
}

func (tb *TB) Eq(a, b *Term) *Term {
	if a == b {
		return tb.True()
	}
	if a.Sort != b.Sort {
		panic(fmt.Sprintf("eq sort mismatch %s vs %s (%s / %s)", a.Sort, b.Sort, tb.Show(a), tb.Show(b)))
	}
	if a.IsLit() && b.IsLit() {
		if a.Op == "bvlit" || a.Op == "intlit" {
			return tb.Bool(a.Val.Cmp(b.Val) == 0)
		}
		return tb.Bool(a.Op == b.Op)
	}
	if a.Sort == SBool {
		if a.IsTrue() {
			return b
		}
		if b.IsTrue() {
			return a
		}
		if a.IsFalse() {
			return tb.Not(b)
		}
		if b.IsFalse() {
			return tb.Not(a)
		}
	}
	// constructor = constructor of same datatype: pointwise
	if a.Op == "ctor" && b.Op == "ctor" && a.Name == b.Name {
		var cs []*Term
		for i := range a.Args {
			cs = append(cs, tb.Eq(a.Args[i], b.Args[i]))
		}
		return tb.And(cs...)
	}
	if a.Op == "ctor" && b.Op == "ctor" && a.Name != b.Name {
		return tb.False()
	}
	if a.id > b.id {
		a, b = b, a
	}
	return tb.mk("=", SBool, "", nil, a, b)
}

func (tb *TB) Distinct(as ...*Term) *Term {
	if len(as) < 2 {
		return tb.True()
	}
	return tb.mk("distinct", SBool, "", nil, as...)
}

// ---------- bit-vectors

func mask(w int) *big.Int {
	m := new(big.Int).Lsh(big.NewInt(1), uint(w))
	return m.Sub(m, big.NewInt(1))
}

// linear form of a bit-vector term: sum of coeff*atom plus constant (all modulo 2^w)
type linForm struct {
	coef map[*Term]*big.Int
	cst  *big.Int
}

func (tb *TB) linOf(t *Term, w int, mul *big.Int, into *linForm, depth int) {
	m := new(big.Int).Lsh(big.NewInt(1), uint(w))
	switch {
	case t.Op == "bvlit":
		into.cst.Add(into.cst, new(big.Int).Mul(mul, t.Val))
		into.cst.Mod(into.cst, m)
		return
	case t.Op == "bvadd" && depth < 64:
		for _, a := range t.Args {
			tb.linOf(a, w, mul, into, depth+1)
		}
		return
	case t.Op == "bvsub" && len(t.Args) == 2 && depth < 64:
		tb.linOf(t.Args[0], w, mul, into, depth+1)
		neg := new(big.Int).Neg(mul)
		neg.Mod(neg, m)
		tb.linOf(t.Args[1], w, neg, into, depth+1)
		return
	case t.Op == "bvneg" && depth < 64:
		neg := new(big.Int).Neg(mul)
		neg.Mod(neg, m)
		tb.linOf(t.Args[0], w, neg, into, depth+1)
		return
	case t.Op == "bvmul" && len(t.Args) == 2 && depth < 64:
		if t.Args[0].Op == "bvlit" {
			nm := new(big.Int).Mul(mul, t.Args[0].Val)
			nm.Mod(nm, m)
			tb.linOf(t.Args[1], w, nm, into, depth+1)
			return
		}
		if t.Args[1].Op == "bvlit" {
			nm := new(big.Int).Mul(mul, t.Args[1].Val)
			nm.Mod(nm, m)
			tb.linOf(t.Args[0], w, nm, into, depth+1)
			return
		}
	}
	c, ok := into.coef[t]
	if !ok {
		c = new(big.Int)
		into.coef[t] = c
	}
	c.Add(c, mul)
	c.Mod(c, m)
}

// linBuild rebuilds a canonical term from a linear form.
func (tb *TB) linBuild(lf *linForm, w int) *Term {
	m := new(big.Int).Lsh(big.NewInt(1), uint(w))
	half := new(big.Int).Rsh(m, 1)
	var atoms []*Term
	for a, c := range lf.coef {
		if c.Sign() != 0 {
			atoms = append(atoms, a)
		}
	}
	sort.Slice(atoms, func(i, j int) bool { return atoms[i].id < atoms[j].id })
	var acc *Term
	var negs []*Term
	for _, a := range atoms {
		c := lf.coef[a]
		var term *Term
		neg := false
		switch {
		case c.Cmp(big.NewInt(1)) == 0:
			term = a
		case new(big.Int).Add(c, big.NewInt(1)).Cmp(m) == 0: // -1
			term, neg = a, true
		case c.Cmp(half) > 0:
			pc := new(big.Int).Sub(m, c)
			term, neg = tb.mk("bvmul", a.Sort, "", nil, tb.BVBig(pc, w), a), true
		default:
			term = tb.mk("bvmul", a.Sort, "", nil, tb.BVBig(c, w), a)
		}
		if neg {
			negs = append(negs, term)
			continue
		}
		if acc == nil {
			acc = term
		} else {
			acc = tb.mk("bvadd", a.Sort, "", nil, acc, term)
		}
	}
	sortW := BVSort(w)
	if acc == nil {
		if len(negs) == 0 {
			return tb.BVBig(lf.cst, w)
		}
		acc = tb.mk("bvneg", sortW, "", nil, negs[0])
		negs = negs[1:]
	}
	for _, n := range negs {
		acc = tb.mk("bvsub", sortW, "", nil, acc, n)
	}
	if lf.cst.Sign() != 0 {
		acc = tb.mk("bvadd", sortW, "", nil, acc, tb.BVBig(lf.cst, w))
	}
	return acc
}

func (tb *TB) BVBin(op string, a, b *Term) *Term {
	if a.Sort != b.Sort {
		panic(fmt.Sprintf("bv %s sort mismatch %s vs %s", op, a.Sort, b.Sort))
	}
	w := a.Sort.Width()
	if (op == "bvadd" || op == "bvsub") && !(a.Op == "bvlit" && b.Op == "bvlit") {
		lf := &linForm{coef: map[*Term]*big.Int{}, cst: new(big.Int)}
		one := big.NewInt(1)
		tb.linOf(a, w, one, lf, 0)
		if op == "bvadd" {
			tb.linOf(b, w, one, lf, 0)
		} else {
			neg := new(big.Int).Sub(new(big.Int).Lsh(big.NewInt(1), uint(w)), big.NewInt(1))
			tb.linOf(b, w, neg, lf, 0)
		}
		return tb.linBuild(lf, w)
	}
	if a.Op == "bvlit" && b.Op == "bvlit" {
		x, y := a.Val, b.Val
		r := new(big.Int)
		ok := true
		switch op {
		case "bvadd":
			r.Add(x, y)
		case "bvsub":
			r.Sub(x, y)
		case "bvmul":
			r.Mul(x, y)
		case "bvand":
			r.And(x, y)
		case "bvor":
			r.Or(x, y)
		case "bvxor":
			r.Xor(x, y)
		case "bvshl":
			if y.Cmp(big.NewInt(int64(w))) >= 0 {
				r.SetInt64(0)
			} else {
				r.Lsh(x, uint(y.Int64()))
			}
		case "bvlshr":
			if y.Cmp(big.NewInt(int64(w))) >= 0 {
				r.SetInt64(0)
			} else {
				r.Rsh(x, uint(y.Int64()))
			}
		case "bvudiv":
			if y.Sign() == 0 {
				ok = false
			} else {
				r.Div(x, y)
			}
		case "bvurem":
			if y.Sign() == 0 {
				ok = false
			} else {
				r.Mod(x, y)
			}
		case "bvsdiv":
			if y.Sign() == 0 {
				ok = false
			} else {
				r.Quo(a.SVal(), b.SVal())
			}
		case "bvsrem":
			if y.Sign() == 0 {
				ok = false
			} else {
				r.Rem(a.SVal(), b.SVal())
			}
		default:
			ok = false
		}
		if ok {
			return tb.BVBig(r, w)
		}
	}
	// division / remainder by a power of two: avoid divider circuits (exact rewrites)
	if b.Op == "bvlit" && b.Val.Sign() > 0 && new(big.Int).And(b.Val, new(big.Int).Sub(b.Val, big.NewInt(1))).Sign() == 0 && b.Val.BitLen() < w {
		c := int64(b.Val.BitLen() - 1)
		m := tb.BVBig(new(big.Int).Sub(b.Val, big.NewInt(1)), w)
		sh := tb.BV(c, w)
		switch op {
		case "bvurem":
			return tb.BVBin("bvand", a, m)
		case "bvudiv":
			return tb.BVBin("bvlshr", a, sh)
		case "bvsrem":
			neg := tb.BVCmp("bvslt", a, tb.BV(0, w))
			na := tb.BVNeg(a)
			return tb.Ite(neg, tb.BVNeg(tb.BVBin("bvand", na, m)), tb.BVBin("bvand", a, m))
		case "bvsdiv":
			neg := tb.BVCmp("bvslt", a, tb.BV(0, w))
			na := tb.BVNeg(a)
			return tb.Ite(neg, tb.BVNeg(tb.BVBin("bvlshr", na, sh)), tb.BVBin("bvlshr", a, sh))
		}
	}
	isZero := func(t *Term) bool { return t.Op == "bvlit" && t.Val.Sign() == 0 }
	isOnes := func(t *Term) bool { return t.Op == "bvlit" && t.Val.Cmp(mask(w)) == 0 }
	switch op {
	case "bvadd", "bvor", "bvxor":
		if isZero(a) {
			return b
		}
		if isZero(b) {
			return a
		}
		if op == "bvadd" && b.Op == "bvlit" && a.Op == "bvadd" && a.Args[1].Op == "bvlit" {
			// (x + c1) + c2 => x + (c1+c2)
			return tb.BVBin("bvadd", a.Args[0], tb.BVBin("bvadd", a.Args[1], b))
		}
		if op == "bvadd" && a.Op == "bvlit" && b.Op != "bvlit" {
			return tb.BVBin(op, b, a)
		}
		if op == "bvadd" && b.Op == "bvadd" && len(b.Args) == 2 && b.Args[1].Op == "bvlit" && a.Op != "bvlit" {
			// a + (x + c) => (a + x) + c
			return tb.BVBin("bvadd", tb.BVBin("bvadd", a, b.Args[0]), b.Args[1])
		}
	case "bvsub":
		if isZero(b) {
			return a
		}
		if a == b {
			return tb.BV(0, w)
		}
		if b.Op == "bvlit" {
			return tb.BVBin("bvadd", a, tb.BVBig(new(big.Int).Neg(b.Val), w))
		}
		// (x + y) - x => y ; (x + y) - y => x
		if a.Op == "bvadd" && len(a.Args) == 2 {
			if a.Args[0] == b {
				return a.Args[1]
			}
			if a.Args[1] == b {
				return a.Args[0]
			}
		}
	case "bvand":
		if isZero(a) || isZero(b) {
			return tb.BV(0, w)
		}
		if isOnes(a) {
			return b
		}
		if isOnes(b) {
			return a
		}
		if a == b {
			return a
		}
	case "bvmul":
		if isZero(a) || isZero(b) {
			return tb.BV(0, w)
		}
		if a.Op == "bvlit" && a.Val.Cmp(big.NewInt(1)) == 0 {
			return b
		}
		if b.Op == "bvlit" && b.Val.Cmp(big.NewInt(1)) == 0 {
			return a
		}
	case "bvshl", "bvlshr", "bvashr":
		if isZero(b) {
			return a
		}
	}
	if op == "bvor" && a == b {
		return a
	}
	if op == "bvxor" && a == b {
		return tb.BV(0, w)
	}
	return tb.mk(op, a.Sort, "", nil, a, b)
}

func (tb *TB) BVNot(a *Term) *Term {
	if a.Op == "bvlit" {
		return tb.BVBig(new(big.Int).Xor(a.Val, mask(a.Sort.Width())), a.Sort.Width())
	}
	return tb.mk("bvnot", a.Sort, "", nil, a)
}

func (tb *TB) BVNeg(a *Term) *Term {
	if a.Op == "bvlit" {
		return tb.BVBig(new(big.Int).Neg(a.Val), a.Sort.Width())
	}
	return tb.BVBin("bvsub", tb.BV(0, a.Sort.Width()), a)
}

func (tb *TB) BVCmp(op string, a, b *Term) *Term {
	if a.Sort != b.Sort {
		panic(fmt.Sprintf("bvcmp %s sort mismatch %s vs %s", op, a.Sort, b.Sort))
	}
	if a.Op == "bvlit" && b.Op == "bvlit" {
		var c int
		if op[2] == 's' {
			c = a.SVal().Cmp(b.SVal())
		} else {
			c = a.Val.Cmp(b.Val)
		}
		switch op {
		case "bvslt", "bvult":
			return tb.Bool(c < 0)
		case "bvsle", "bvule":
			return tb.Bool(c <= 0)
		case "bvsgt", "bvugt":
			return tb.Bool(c > 0)
		case "bvsge", "bvuge":
			return tb.Bool(c >= 0)
		}
	}
	if a == b {
		switch op {
		case "bvsle", "bvule", "bvsge", "bvuge":
			return tb.True()
		default:
			return tb.False()
		}
	}
	// canonical comparisons: only bvslt / bvult (and their negations)
	switch op {
	case "bvsgt":
		return tb.mk("bvslt", SBool, "", nil, b, a)
	case "bvugt":
		return tb.mk("bvult", SBool, "", nil, b, a)
	case "bvsle":
		return tb.Not(tb.mk("bvslt", SBool, "", nil, b, a))
	case "bvule":
		return tb.Not(tb.mk("bvult", SBool, "", nil, b, a))
	case "bvsge":
		return tb.Not(tb.mk("bvslt", SBool, "", nil, a, b))
	case "bvuge":
		return tb.Not(tb.mk("bvult", SBool, "", nil, a, b))
	}
	return tb.mk(op, SBool, "", nil, a, b)
}

func (tb *TB) ZeroExt(a *Term, to int) *Term {
	w := a.Sort.Width()
	if to == w {
		return a
	}
	if to < w {
		return tb.Extract(a, to-1, 0)
	}
	if a.Op == "bvlit" {
		return tb.BVBig(a.Val, to)
	}
	return tb.mk("zero_extend", BVSort(to), fmt.Sprint(to-w), nil, a)
}

func (tb *TB) SignExt(a *Term, to int) *Term {
	w := a.Sort.Width()
	if to == w {
		return a
	}
	if to < w {
		return tb.Extract(a, to-1, 0)
	}
	if a.Op == "bvlit" {
		return tb.BVBig(a.SVal(), to)
	}
	return tb.mk("sign_extend", BVSort(to), fmt.Sprint(to-w), nil, a)
}

func (tb *TB) Extract(a *Term, hi, lo int) *Term {
	w := a.Sort.Width()
	if lo == 0 && hi == w-1 {
		return a
	}
	if a.Op == "bvlit" {
		v := new(big.Int).Rsh(a.Val, uint(lo))
		return tb.BVBig(v, hi-lo+1)
	}
	if (a.Op == "zero_extend") && lo == 0 {
		iw := a.Args[0].Sort.Width()
		if hi+1 == iw {
			return a.Args[0]
		}
		if hi+1 < iw {
			return tb.Extract(a.Args[0], hi, 0)
		}
		return tb.ZeroExt(a.Args[0], hi+1)
	}
	return tb.mk("extract", BVSort(hi-lo+1), fmt.Sprintf("%d %d", hi, lo), nil, a)
}

func (tb *TB) Concat(a, b *Term) *Term {
	if a.Op == "bvlit" && b.Op == "bvlit" {
		v := new(big.Int).Lsh(a.Val, uint(b.Sort.Width()))
		v.Or(v, b.Val)
		return tb.BVBig(v, a.Sort.Width()+b.Sort.Width())
	}
	return tb.mk("concat", BVSort(a.Sort.Width()+b.Sort.Width()), "", nil, a, b)
}

// ---------- Int

func (tb *TB) IntBin(op string, a, b *Term) *Term {
	if a.Op == "intlit" && b.Op == "intlit" {
		r := new(big.Int)
		switch op {
		case "+":
			return tb.mk("intlit", SInt, "", r.Add(a.Val, b.Val))
		case "-":
			return tb.mk("intlit", SInt, "", r.Sub(a.Val, b.Val))
		}
	}
	if op == "+" && b.Op == "intlit" && a.Op == "+" && a.Args[1].Op == "intlit" {
		return tb.IntBin("+", a.Args[0], tb.mk("intlit", SInt, "", new(big.Int).Add(a.Args[1].Val, b.Val)))
	}
	return tb.mk(op, SInt, "", nil, a, b)
}

func (tb *TB) IntCmp(op string, a, b *Term) *Term {
	if a.Op == "intlit" && b.Op == "intlit" {
		c := a.Val.Cmp(b.Val)
		switch op {
		case "<":
			return tb.Bool(c < 0)
		case "<=":
			return tb.Bool(c <= 0)
		case ">":
			return tb.Bool(c > 0)
		case ">=":
			return tb.Bool(c >= 0)
		}
	}
	return tb.mk(op, SBool, "", nil, a, b)
}

// ---------- arrays

func (tb *TB) Select(a, i *Term) *Term {
	_, elem, ok := a.Sort.ArrayParts()
	if !ok {
		panic("select on non-array " + string(a.Sort))
	}
	// read-over-write with syntactically decidable indices
	for a.Op == "store" {
		j := a.Args[1]
		if j == i {
			return a.Args[2]
		}
		if tb.syntDistinct(i, j) {
			a = a.Args[0]
			continue
		}
		break
	}
	if a.Op == "constarr" {
		return a.Args[0]
	}
	if a.Op == "ite" && !i.open && tb.selDepth < 6 {
		// push the read into the branches when that lets a store chain resolve
		if a.Args[1].Op == "store" || a.Args[2].Op == "store" || a.Args[1].Op == "ite" || a.Args[2].Op == "ite" || a.Args[1].Op == "constarr" || a.Args[2].Op == "constarr" {
			tb.selDepth++
			x := tb.Select(a.Args[1], i)
			y := tb.Select(a.Args[2], i)
			tb.selDepth--
			return tb.Ite(a.Args[0], x, y)
		}
	}
	return tb.mk("select", elem, "", nil, a, i)
}

// syntDistinct reports whether two terms are certainly different values.
func (tb *TB) syntDistinct(a, b *Term) bool {
	if a == b {
		return false
	}
	if a.IsLit() && b.IsLit() {
		return true
	}
	if a.Op == "ctor" && b.Op == "ctor" {
		if a.Name != b.Name {
			return true
		}
		for i := range a.Args {
			if tb.syntDistinct(a.Args[i], b.Args[i]) {
				return true
			}
		}
	}
	// a reference allocated during the run vs. one known to predate the run
	if a.Sort == SRef {
		if (tb.isNewRef(a) && tb.IsOldRef(b)) || (tb.isNewRef(b) && tb.IsOldRef(a)) {
			return true
		}
	}
	// x + c1 vs x + c2, x vs x + c
	base := func(t *Term) (*Term, *big.Int) {
		if t.Op == "bvadd" && len(t.Args) == 2 && t.Args[1].Op == "bvlit" {
			return t.Args[0], t.Args[1].Val
		}
		return t, big.NewInt(0)
	}
	if a.Sort.Width() > 0 {
		ba, ca := base(a)
		bb, cb := base(b)
		if ba == bb && ca.Cmp(cb) != 0 {
			return true
		}
	}
	return false
}

func (tb *TB) Store(a, i, v *Term) *Term {
	idx, elem, ok := a.Sort.ArrayParts()
	if !ok {
		panic("store on non-array " + string(a.Sort))
	}
	if i.Sort != idx || v.Sort != elem {
		panic(fmt.Sprintf("store sort mismatch: array %s idx %s val %s", a.Sort, i.Sort, v.Sort))
	}
	if a.Op == "store" && a.Args[1] == i {
		a = a.Args[0]
	}
	// store(a, i, select(a, i)) = a
	if v.Op == "select" && v.Args[0] == a && v.Args[1] == i {
		return a
	}
	return tb.mk("store", a.Sort, "", nil, a, i, v)
}

func (tb *TB) ConstArr(sort Sort, v *Term) *Term {
	return tb.mk("constarr", sort, "", nil, v)
}

// ---------- datatypes / UF

func (tb *TB) Ctor(dt string, args ...*Term) *Term {
	d := tb.dtDecl[dt]
	if d == nil {
		panic("unknown datatype " + dt)
	}
	if len(args) != len(d.Fields) {
		panic(fmt.Sprintf("ctor %s arity: got %d want %d", dt, len(args), len(d.Fields)))
	}
	for i, a := range args {
		if a.Sort != d.Fields[i].Sort {
			panic(fmt.Sprintf("ctor %s field %s sort %s, got %s", dt, d.Fields[i].Name, d.Fields[i].Sort, a.Sort))
		}
	}
	// mk(f1(x), f2(x), ...) = x
	if len(args) > 0 && args[0].Op == "acc" {
		x := args[0].Args[0]
		all := x.Sort == Sort(dt)
		for i, a := range args {
			if !(a.Op == "acc" && a.Args[0] == x && a.Name == d.Fields[i].Name) {
				all = false
				break
			}
		}
		if all {
			return x
		}
	}
	return tb.mk("ctor", Sort(dt), d.Ctor, nil, args...)
}

func (tb *TB) Acc(x *Term, i int) *Term {
	d := tb.dtDecl[string(x.Sort)]
	if d == nil {
		panic("acc on non-datatype " + string(x.Sort))
	}
	if x.Op == "ctor" {
		return x.Args[i]
	}
	if x.Op == "ite" {
		return tb.Ite(x.Args[0], tb.Acc(x.Args[1], i), tb.Acc(x.Args[2], i))
	}
	return tb.mk("acc", d.Fields[i].Sort, d.Fields[i].Name, nil, x)
}

func (tb *TB) With(x *Term, i int, v *Term) *Term {
	d := tb.dtDecl[string(x.Sort)]
	args := make([]*Term, len(d.Fields))
	for j := range d.Fields {
		if j == i {
			args[j] = v
		} else {
			args[j] = tb.Acc(x, j)
		}
	}
	return tb.Ctor(d.Name, args...)
}

func (tb *TB) App(fn string, sort Sort, args ...*Term) *Term {
	return tb.mk("app", sort, fn, nil, args...)
}

// Ref constructors
func (tb *TB) RefObj(id *Term) *Term { return tb.mk("ctor", SRef, "obj", nil, id) }
func (tb *TB) RefSub(p *Term, k int) *Term {
	return tb.mk("ctor", SRef, "sub", nil, p, tb.Int(int64(k)))
}
func (tb *TB) RefLit(k int) *Term { return tb.mk("ctor", SRef, "lit", nil, tb.Int(int64(k))) }
func (tb *TB) RefNil() *Term      { return tb.mk("ctor", SRef, "nilref", nil) }

func (tb *TB) RootID(r *Term) *Term { return tb.App("rootid", SInt, r) }

// quantifiers
func (tb *TB) Forall(bnd []*Term, body *Term, pats ...*Term) *Term {
	if body.IsTrue() {
		return body
	}
	k := tb.key("forall", SBool, "", nil, append([]*Term{body}, pats...), bnd)
	if t, ok := tb.tab[k]; ok {
		return t
	}
	tb.next++
	t := &Term{Op: "forall", Args: []*Term{body}, Sort: SBool, id: tb.next, Bnd: bnd, Pat: pats}
	// open if body has other bound vars than bnd: conservatively compute
	t.open = tb.hasFreeVar(body, bnd)
	tb.tab[k] = t
	return t
}

func (tb *TB) hasFreeVar(t *Term, bound []*Term) bool {
	if !t.open {
		return false
	}
	if t.Op == "var" {
		for _, b := range bound {
			if b == t {
				return false
			}
		}
		return true
	}
	if t.Op == "forall" {
		nb := append(append([]*Term{}, bound...), t.Bnd...)
		return tb.hasFreeVar(t.Args[0], nb)
	}
	for _, a := range t.Args {
		if tb.hasFreeVar(a, bound) {
			return true
		}
	}
	return false
}

// Subst replaces terms by terms (used for bound variable instantiation).
func (tb *TB) Subst(t *Term, m map[*Term]*Term) *Term {
	cache := map[*Term]*Term{}
	var rec func(t *Term) *Term
	rec = func(t *Term) *Term {
		if r, ok := m[t]; ok {
			return r
		}
		if len(t.Args) == 0 {
			return t
		}
		if r, ok := cache[t]; ok {
			return r
		}
		args := make([]*Term, len(t.Args))
		changed := false
		for i, a := range t.Args {
			args[i] = rec(a)
			if args[i] != a {
				changed = true
			}
		}
		var r *Term
		if !changed {
			r = t
		} else {
			r = tb.rebuild(t, args)
		}
		cache[t] = r
		return r
	}
	return rec(t)
}

func (tb *TB) rebuild(t *Term, args []*Term) *Term {
	switch t.Op {
	case "not":
		return tb.Not(args[0])
	case "and":
		return tb.And(args...)
	case "or":
		return tb.Or(args...)
	case "=>":
		return tb.Implies(args[0], args[1])
	case "ite":
		return tb.Ite(args[0], args[1], args[2])
	case "=":
		return tb.Eq(args[0], args[1])
	case "select":
		return tb.Select(args[0], args[1])
	case "store":
		return tb.Store(args[0], args[1], args[2])
	case "acc":
		d := tb.dtDecl[string(args[0].Sort)]
		for i, f := range d.Fields {
			if f.Name == t.Name {
				return tb.Acc(args[0], i)
			}
		}
	case "ctor":
		if t.Sort != SRef {
			return tb.Ctor(string(t.Sort), args...)
		}
	case "bvadd", "bvsub", "bvmul", "bvand", "bvor", "bvxor", "bvshl", "bvlshr", "bvashr", "bvudiv", "bvurem", "bvsdiv", "bvsrem":
		return tb.BVBin(t.Op, args[0], args[1])
	case "bvult", "bvule", "bvugt", "bvuge", "bvslt", "bvsle", "bvsgt", "bvsge":
		return tb.BVCmp(t.Op, args[0], args[1])
	case "forall":
		return tb.Forall(t.Bnd, args[0], t.Pat...)
	case "zero_extend":
		return tb.ZeroExt(args[0], t.Sort.Width())
	case "sign_extend":
		return tb.SignExt(args[0], t.Sort.Width())
	}
	return tb.mk(t.Op, t.Sort, t.Name, t.Val, args...)
}

// ---------- printing

func bvLitStr(v *big.Int, w int) string {
	if w%4 == 0 {
		s := v.Text(16)
		for len(s) < w/4 {
			s = "0" + s
		}
		return "#x" + s
	}
	s := v.Text(2)
	for len(s) < w {
		s = "0" + s
	}
	return "#b" + s
}

func symName(n string) string {
	for _, r := range n {
		if !(r >= 'a' && r <= 'z' || r >= 'A' && r <= 'Z' || r >= '0' && r <= '9' || r == '_' || r == '.' || r == '!' || r == '?' || r == '$') {
			return "|" + n + "|"
		}
	}
	return n
}

type smtPrinter struct {
	tb      *TB
	defs    []string        // define-fun lines in order
	named   map[*Term]string // hoisted closed terms
	consts  map[string]Sort
	corder  []string
	uses    map[*Term]int
	visited map[*Term]bool
}

func (p *smtPrinter) count(t *Term) {
	p.uses[t]++
	if p.uses[t] > 1 {
		return
	}
	for _, a := range t.Args {
		p.count(a)
	}
	for _, a := range t.Pat {
		p.count(a)
	}
}

func (p *smtPrinter) str(t *Term) string {
	if n, ok := p.named[t]; ok {
		return n
	}
	s := p.raw(t)
	if !t.open && len(t.Args) > 0 && p.uses[t] > 1 && t.Op != "ctor" || (!t.open && len(s) > 200) {
		n := fmt.Sprintf("t%d", t.id)
		p.defs = append(p.defs, fmt.Sprintf("(define-fun %s () %s %s)", n, t.Sort, s))
		p.named[t] = n
		return n
	}
	return s
}

func (p *smtPrinter) raw(t *Term) string {
	switch t.Op {
	case "const":
		if _, ok := p.consts[t.Name]; !ok {
			p.consts[t.Name] = t.Sort
			p.corder = append(p.corder, t.Name)
		}
		return symName(t.Name)
	case "var":
		return symName(t.Name)
	case "true", "false":
		return t.Op
	case "bvlit":
		return bvLitStr(t.Val, t.Sort.Width())
	case "intlit":
		if t.Val.Sign() < 0 {
			return "(- " + new(big.Int).Neg(t.Val).String() + ")"
		}
		return t.Val.String()
	case "zero_extend", "sign_extend":
		return fmt.Sprintf("((_ %s %s) %s)", t.Op, t.Name, p.str(t.Args[0]))
	case "extract":
		return fmt.Sprintf("((_ extract %s) %s)", t.Name, p.str(t.Args[0]))
	case "ctor":
		if len(t.Args) == 0 {
			return t.Name
		}
		return p.app(t.Name, t.Args)
	case "acc":
		return p.app(t.Name, t.Args)
	case "app":
		if len(t.Args) == 0 {
			return symName(t.Name)
		}
		return p.app(symName(t.Name), t.Args)
	case "constarr":
		return fmt.Sprintf("((as const %s) %s)", t.Sort, p.str(t.Args[0]))
	case "forall":
		var sb strings.Builder
		sb.WriteString("(forall (")
		for _, b := range t.Bnd {
			fmt.Fprintf(&sb, "(%s %s)", symName(b.Name), b.Sort)
		}
		sb.WriteString(") ")
		body := p.str(t.Args[0])
		if len(t.Pat) > 0 {
			sb.WriteString("(! ")
			sb.WriteString(body)
			for _, pt := range t.Pat {
				sb.WriteString(" :pattern (" + p.str(pt) + ")")
			}
			sb.WriteString(")")
		} else {
			sb.WriteString(body)
		}
		sb.WriteString(")")
		return sb.String()
	}
	return p.app(t.Op, t.Args)
}

func (p *smtPrinter) app(op string, args []*Term) string {
	var sb strings.Builder
	sb.WriteByte('(')
	sb.WriteString(op)
	for _, a := range args {
		sb.WriteByte(' ')
		sb.WriteString(p.str(a))
	}
	sb.WriteByte(')')
	return sb.String()
}

// Show renders a term for diagnostics (no hoisting).
func (tb *TB) Show(t *Term) string {
	p := &smtPrinter{tb: tb, named: map[*Term]string{}, consts: map[string]Sort{}, uses: map[*Term]int{}}
	s := p.raw(t)
	if len(s) > 400 {
		s = s[:400] + "..."
	}
	return s
}

const refDecl = `(declare-datatypes ((Ref 0)) (((nilref) (obj (r.id Int)) (sub (r.parent Ref) (r.idx Int)) (lit (r.k Int)))))
(define-fun rootid ((r Ref)) Int
  (ite ((_ is obj) r) (r.id r)
  (ite ((_ is sub) r)
    (ite ((_ is obj) (r.parent r)) (r.id (r.parent r))
    (ite ((_ is sub) (r.parent r))
      (ite ((_ is obj) (r.parent (r.parent r))) (r.id (r.parent (r.parent r)))
      (ite ((_ is sub) (r.parent (r.parent r)))
         (ite ((_ is obj) (r.parent (r.parent (r.parent r)))) (r.id (r.parent (r.parent (r.parent r)))) (- 1))
      (- 1)))
    (- 1)))
  (- 1))))
(declare-sort Fn 0)
(declare-sort Opq 0)
`

// Script builds a complete SMT-LIB2 script: assertions, then check-sat and get-value of the given terms.
func (tb *TB) Script(asserts []*Term, getvals []*Term, cvc5 bool) string {
	p := &smtPrinter{tb: tb, named: map[*Term]string{}, consts: map[string]Sort{}, uses: map[*Term]int{}}
	for _, a := range asserts {
		p.count(a)
	}
	var lines []string
	for _, a := range asserts {
		s := p.str(a)
		// each assert line is emitted after the defs it needs
		lines = append(lines, strings.Join(p.defs, "\n"))
		p.defs = nil
		lines = append(lines, "(assert "+s+")")
	}
	var gv []string
	for _, g := range getvals {
		s := p.str(g)
		if len(p.defs) > 0 {
			lines = append(lines, strings.Join(p.defs, "\n"))
			p.defs = nil
		}
		gv = append(gv, s)
	}
	var sb strings.Builder
	sb.WriteString("(set-option :produce-models true)\n")
	sb.WriteString("(set-logic ALL)\n")
	sb.WriteString(refDecl)
	for _, n := range tb.dtOrder {
		d := tb.dtDecl[n]
		fmt.Fprintf(&sb, "(declare-datatypes ((%s 0)) (((%s", d.Name, d.Ctor)
		for _, f := range d.Fields {
			fmt.Fprintf(&sb, " (%s %s)", f.Name, f.Sort)
		}
		sb.WriteString("))))\n")
	}
	for _, n := range tb.ufOrder {
		fmt.Fprintf(&sb, "(declare-fun %s %s)\n", symName(n), tb.ufDecl[n])
	}
	names := append([]string{}, p.corder...)
	sort.Strings(names)
	for _, n := range names {
		fmt.Fprintf(&sb, "(declare-const %s %s)\n", symName(n), p.consts[n])
	}
	for _, l := range lines {
		if l != "" {
			sb.WriteString(l)
			sb.WriteByte('\n')
		}
	}
	sb.WriteString("(check-sat)\n")
	if len(gv) > 0 {
		sb.WriteString("(get-value (" + strings.Join(gv, " ") + "))\n")
	}
	return sb.String()
}


// isNewRef: obj(clock0 + n) or a sub-object of one.
func (tb *TB) isNewRef(t *Term) bool {
	for t.Op == "ctor" && t.Name == "sub" {
		t = t.Args[0]
	}
	if tb.NewRefs[t] {
		return true
	}
	if t.Op != "ctor" || t.Name != "obj" {
		return false
	}
	id := t.Args[0]
	isClock := func(c *Term) bool {
		return c.Op == "const" && (c.Name == "clock0" || strings.HasPrefix(c.Name, "clk!"))
	}
	if isClock(id) {
		return true
	}
	if id.Op == "+" && isClock(id.Args[0]) && id.Args[1].Op == "intlit" && id.Args[1].Val.Sign() >= 0 {
		return true
	}
	if id.Op == "+" && id.Args[0].Op == "+" {
		// (clock0 + a) + b
		x := id.Args[0]
		return x.Args[0].Op == "const" && x.Args[0].Name == "clock0" && x.Args[1].Op == "intlit" && id.Args[1].Op == "intlit"
	}
	return false
}


// IsOldRef: a reference that predates the function under verification: a registered parameter part,
// or a value read out of the entry state (built only from parameters, initial heaps h0_*, globals).
func (tb *TB) IsOldRef(t *Term) bool {
	if tb.OldRefs[t] {
		return true
	}
	if t.Sort != SRef {
		return false
	}
	if v, ok := tb.oldCache[t]; ok {
		return v
	}
	var pure func(x *Term, d int) bool
	pure = func(x *Term, d int) bool {
		if d > 12 {
			return false
		}
		switch x.Op {
		case "const":
			return strings.HasPrefix(x.Name, "p_") || strings.HasPrefix(x.Name, "h0_") || strings.HasPrefix(x.Name, "G_") || strings.HasPrefix(x.Name, "fv_")
		case "select", "acc":
			for _, a := range x.Args {
				if !pure(a, d+1) {
					return false
				}
			}
			return true
		case "bvlit", "intlit":
			return true
		case "ctor":
			if x.Name == "sub" {
				return pure(x.Args[0], d+1)
			}
			return false
		}
		return false
	}
	r := (t.Op == "select" || t.Op == "acc" || (t.Op == "ctor" && t.Name == "sub")) && pure(t, 0)
	if tb.oldCache == nil {
		tb.oldCache = map[*Term]bool{}
	}
	tb.oldCache[t] = r
	return r
}

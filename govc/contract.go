package main

// Contract files: //@ blocks in <pkg>/zz_contracts_verif.go (build tag verif).
// Clauses are Go expressions; each is compiled into a generated wrapper
// function (overlay file, never written to /repo) so that go/types checks it
// and the same SSA engine translates it to SMT.

import (
	"bytes"
	"fmt"
	"go/ast"
	"go/parser"
	"go/printer"
	"go/token"
	"go/types"
	"os"
	"path/filepath"
	"regexp"
	"sort"
	"strconv"
	"strings"

	"golang.org/x/tools/go/packages"
)

const contractFile = "zz_contracts_verif.go"
const genFile = "zz_contracts_gen_verif.go"

type ParamKind int

const (
	PKCur    ParamKind = iota // current value of a local / parameter cell
	PKEntry                   // value of a parameter at function entry
	PKResult                  // i-th result
	PKAddr                    // address of an address-taken local (&x in a clause)
)

type WParam struct {
	Name   string
	PosKey string
	Kind   ParamKind
	Var    *types.Var // for PKCur / PKEntry
	ResIdx int
	Type   types.Type
	TypeStr string // printed type of a callee value (invoke clauses); Type is nil then
}

type Clause struct {
	Kind     string // requires ensures invariant decreases expr
	Label    string
	Text     string
	Line     int
	File     string
	Wrapper  string
	Params   []WParam
	RetType  string
	Unproved string   // reason; clause is stated but not claimed
	Props    []string // clause-level property tags ([label @C16,C01]); empty: the function's props
}

type AssignItem struct {
	Kind  string // obj field bytes stream all
	Field string
	Expr  *Clause
	Text  string
}

// CaseGroup is a proof hint: the function is verified once per alternative (cross product over
// groups); each alternative is a conjunction of atoms (optionally negated with a leading "!") that
// are assumed, and an extra obligation shows that the alternatives of a group are exhaustive.
type CaseGroup struct {
	Name string
	Alts [][]*CaseAtom
	Line int
}

type CaseAtom struct {
	Neg bool
	Cl  *Clause
}

type SplitHint struct {
	Label string
	Base  *Clause // int expression evaluated at the back edge
	Count int
}

type LoopSpec struct {
	Splits     []*SplitHint
	Invariants []*Clause
	Assigns    []*AssignItem
	HasAssigns bool
	Decreases  *Clause
	Unroll     int
}

type Contract struct {
	Locals     []string          // "name:type" of the function's locals in source order when the contract was written (govc locals)
	SigNames   []string          // names of receiver, parameters and results, in order, when the contract was written
	CurSig     []string          // the same list computed from the current source
	SigRenames map[string]string // parameters/results renamed since (matched by position: exact)
	CurLocals  []string          // the same list computed from the current source
	Renames    map[string]string // locals of that list that were renamed since: old name -> current name (loop clauses only)
	StaleLoopsOnly bool // only loop clauses are stale: pre/postconditions still serve callers
	Stale      string // non-empty: the contract no longer fits the code (clause does not compile); the function is reported, not its package
	PkgPath    string
	Key        string // "Cipher", "Writer.Flush", "Parameters.Parse$1"
	CallsiteRequires map[string][]*Clause // obligations at every call of a callee, over the caller's variables
	InvokeEnsures map[string][]*Clause // assumed facts about abstract interface calls made by this function
	InvokeAssigns map[string][]*AssignItem // extra frame of abstract interface calls made by this function
	InvokeRequires map[string][]*Clause    // obligations at every abstract interface/callback call made by this function
	FuncType   string // funcval contract: the function type it applies to
	IsIface    bool   // interface method contract: Key = "io.Reader.Read"
	Sig        string // for iface: parameter list text
	Props      []string
	Requires   []*Clause
	Ensures    []*Clause
	Assigns    []*AssignItem
	HasAssigns bool
	Loops      map[int]*LoopSpec
	Cases      []*CaseGroup
	Impls      map[string][]string // interface type (as written) -> candidate dynamic types for dispatch
	Inline     map[string]bool     // callee keys to inline at call sites
	Trusted    bool                // body not verified (assumed contract)
	External   bool                // function of another package (assumed contract)
	NoBody     bool
	Line       int
	File       string
	Lemma      bool
	Calls      map[string]string // callee key -> "contract" | "inline" | "havoc"
	Fd         *ast.FuncDecl
	Lit        *ast.FuncLit
	Obj        *types.Func
	TypesSig   *types.Signature
	Pkg        *packages.Package
	ScopePos   token.Pos
	ResNames   []string
}

func (c *Contract) FullName() string { return shortPkg(c.PkgPath) + "." + c.Key }

func shortPkg(p string) string {
	if i := strings.LastIndex(p, "/"); i >= 0 {
		return p[i+1:]
	}
	return p
}

type ContractSet struct {
	ByKey map[string]*Contract // pkgpath + "." + key
	Order []*Contract
	Errs  []string
}

var clauseKeywords = map[string]bool{"locals": true, "sig": true, "callsite": true, "invoke": true, "funcval": true, "impls": true, "cases": true, "func": true, "iface": true, "props": true, "requires": true, "ensures": true,
	"assigns": true, "loop": true, "inline": true, "trusted": true, "lemma": true, "call": true, "unproved": true}

// ParseContractFile reads the //@ lines of one contract file.
func ParseContractFile(path, pkgPath string, cs *ContractSet) {
	data, err := os.ReadFile(path)
	if err != nil {
		return
	}
	lines := strings.Split(string(data), "\n")
	var cur *Contract
	var lastClause *Clause
	var lastAssign *AssignItem
	var pendingUnproved string
	addErr := func(ln int, f string, a ...interface{}) {
		cs.Errs = append(cs.Errs, fmt.Sprintf("%s:%d: %s", path, ln, fmt.Sprintf(f, a...)))
	}
	for i, raw := range lines {
		ln := i + 1
		t := strings.TrimSpace(raw)
		if !strings.HasPrefix(t, "//@") {
			continue
		}
		body := strings.TrimSpace(t[3:])
		if body == "" {
			continue
		}
		word := body
		rest := ""
		if j := strings.IndexAny(body, " \t"); j >= 0 {
			word, rest = body[:j], strings.TrimSpace(body[j+1:])
		}
		if !clauseKeywords[word] {
			// continuation
			if lastClause != nil {
				lastClause.Text += " " + body
			} else if lastAssign != nil {
				lastAssign.Text += " " + body
			} else {
				addErr(ln, "stray contract line %q", body)
			}
			continue
		}
		lastClause, lastAssign = nil, nil
		mkClause := func(kind, s string) *Clause {
			c := &Clause{Kind: kind, Line: ln, File: path}
			s = strings.TrimSpace(s)
			if strings.HasPrefix(s, "[") {
				if j := strings.Index(s, "]"); j > 0 {
					c.Label = s[1:j]
					if k := strings.Index(c.Label, "@"); k >= 0 {
						c.Props = strings.Fields(strings.ReplaceAll(c.Label[k+1:], ",", " "))
						c.Label = strings.TrimSpace(c.Label[:k])
					}
					s = strings.TrimSpace(s[j+1:])
				}
			}
			c.Text = s
			if pendingUnproved != "" {
				c.Unproved = pendingUnproved
				pendingUnproved = ""
			}
			lastClause = c
			return c
		}
		switch word {
		case "func", "iface", "lemma", "funcval":
			cur = &Contract{PkgPath: pkgPath, Loops: map[int]*LoopSpec{}, Inline: map[string]bool{}, Calls: map[string]string{}, Line: ln, File: path}
			if word == "funcval" {
				// funcval func(io.Writer) wsflate.Compressor :: (w io.Writer) (c Compressor)
				// contract assumed of every function value of that type (user callbacks)
				parts := strings.SplitN(rest, "::", 2)
				if len(parts) != 2 {
					addErr(ln, "funcval needs '<func type> :: <signature with names>'")
					cur = nil
					continue
				}
				cur.IsIface = true
				cur.FuncType = strings.TrimSpace(parts[0])
				cur.Key = "callback:" + cur.FuncType
				cur.Sig = strings.TrimSpace(parts[1])
			} else if word == "iface" {
				cur.IsIface = true
				// iface io.Reader.Read(p []byte) (n int, err error)
				j := strings.Index(rest, "(")
				if j < 0 {
					addErr(ln, "iface needs a signature")
					cur = nil
					continue
				}
				cur.Key = strings.TrimSpace(rest[:j])
				cur.Sig = strings.TrimSpace(rest[j:])
			} else {
				cur.Key = strings.TrimSpace(rest)
				cur.Lemma = word == "lemma"
			}
			k := pkgPath + "." + cur.Key
			if _, dup := cs.ByKey[k]; dup {
				addErr(ln, "duplicate contract for %s", cur.Key)
			}
			cs.ByKey[k] = cur
			cs.Order = append(cs.Order, cur)
		default:
			if cur == nil {
				addErr(ln, "clause outside a func block")
				continue
			}
			switch word {
			case "props":
				cur.Props = append(cur.Props, strings.Fields(strings.ReplaceAll(rest, ",", " "))...)
			case "trusted":
				cur.Trusted = true
			case "unproved":
				pendingUnproved = strings.Trim(rest, "\"")
				if pendingUnproved == "" {
					pendingUnproved = "not claimed"
				}
			case "requires":
				cur.Requires = append(cur.Requires, mkClause("requires", rest))
			case "ensures":
				cur.Ensures = append(cur.Ensures, mkClause("ensures", rest))
			case "assigns":
				cur.HasAssigns = true
				if rest != "" && rest != "nothing" {
					for _, it := range splitTop(rest, ',') {
						a := &AssignItem{Text: strings.TrimSpace(it)}
						cur.Assigns = append(cur.Assigns, a)
						lastAssign = a
					}
				}
			case "impls":
				// impls io.Reader: *io.LimitedReader, *CipherReader, *UTF8Reader
				j := strings.Index(rest, ":")
				if j < 0 {
					addErr(ln, "impls needs: <interface>: <type>, <type> ...")
					continue
				}
				if cur.Impls == nil {
					cur.Impls = map[string][]string{}
				}
				for _, t := range strings.Split(rest[j+1:], ",") {
					cur.Impls[strings.TrimSpace(rest[:j])] = append(cur.Impls[strings.TrimSpace(rest[:j])], strings.TrimSpace(t))
				}
			case "cases":
				// cases name: a && !b | c && d | ...
				j := strings.Index(rest, ":")
				if j < 0 {
					addErr(ln, "cases needs: <name>: alt | alt ...")
					continue
				}
				cg := &CaseGroup{Name: strings.TrimSpace(rest[:j]), Line: ln}
				for _, alt := range splitTop(rest[j+1:], '|') {
					var atoms []*CaseAtom
					for _, a := range strings.Split(alt, "&&") {
						a = strings.TrimSpace(a)
						if a == "" {
							continue
						}
						neg := false
						if strings.HasPrefix(a, "!(") && strings.HasSuffix(a, ")") {
							neg = true
							a = a[2 : len(a)-1]
						}
						atoms = append(atoms, &CaseAtom{Neg: neg, Cl: &Clause{Kind: "requires", Label: "case-" + cg.Name, Text: a, Line: ln, File: path}})
					}
					cg.Alts = append(cg.Alts, atoms)
				}
				cur.Cases = append(cur.Cases, cg)
			case "inline":
				for _, f := range strings.Fields(strings.ReplaceAll(rest, ",", " ")) {
					cur.Inline[f] = true
				}
			case "locals":
				cur.Locals = strings.Fields(rest)
			case "sig":
				cur.SigNames = strings.Fields(rest)
			case "callsite":
				// callsite <callee> requires [label] <expr over the caller's parameters and function-level locals>
				fs := strings.SplitN(rest, " ", 3)
				if len(fs) != 3 || fs[1] != "requires" {
					addErr(ln, "callsite needs: <callee> requires [label] <clause>")
					continue
				}
				if cur.CallsiteRequires == nil {
					cur.CallsiteRequires = map[string][]*Clause{}
				}
				cur.CallsiteRequires[fs[0]] = append(cur.CallsiteRequires[fs[0]], mkClause("requires", fs[2]))
			case "invoke":
				// invoke io.Reader.Read assigns r.raw, bytes(p): calls of that interface method made by
				// this function use the abstract contract and may additionally modify the listed locations
				fs := strings.SplitN(rest, " ", 3)
				if len(fs) == 3 && fs[1] == "ensures" {
					// invoke io.Reader.Read ensures [label] clause over c_self, c_<param>, c_<result> and the
					// function's own parameters: an ASSUMED fact about what the black box does here
					if cur.InvokeEnsures == nil {
						cur.InvokeEnsures = map[string][]*Clause{}
					}
					cl := mkClause("ensures", fs[2])
					cur.InvokeEnsures[fs[0]] = append(cur.InvokeEnsures[fs[0]], cl)
					continue
				}
				if len(fs) == 3 && fs[1] == "requires" {
					// invoke callback:T requires [label] clause over c_self, c_<param> and the function's own
					// parameters: an OBLIGATION at every such call (what this function hands to the callee)
					if cur.InvokeRequires == nil {
						cur.InvokeRequires = map[string][]*Clause{}
					}
					cur.InvokeRequires[fs[0]] = append(cur.InvokeRequires[fs[0]], mkClause("requires", fs[2]))
					continue
				}
				if len(fs) != 3 || fs[1] != "assigns" {
					addErr(ln, "invoke needs: <iface.method> assigns <items> | ensures [label] <clause> | requires [label] <clause>")
					continue
				}
				if cur.InvokeAssigns == nil {
					cur.InvokeAssigns = map[string][]*AssignItem{}
				}
				for _, it := range splitTop(fs[2], ',') {
					a := &AssignItem{Text: strings.TrimSpace(it)}
					cur.InvokeAssigns[fs[0]] = append(cur.InvokeAssigns[fs[0]], a)
					lastAssign = a
				}
			case "call":
				// call <callee> contract|inline|havoc
				fs := strings.Fields(rest)
				if len(fs) == 2 {
					cur.Calls[fs[0]] = fs[1]
				} else {
					addErr(ln, "call needs: <callee> contract|inline|havoc")
				}
			case "loop":
				fs := strings.SplitN(rest, " ", 3)
				if len(fs) < 2 {
					addErr(ln, "bad loop clause")
					continue
				}
				n, err := strconv.Atoi(fs[0])
				if err != nil {
					addErr(ln, "bad loop ordinal %q", fs[0])
					continue
				}
				ls := cur.Loops[n]
				if ls == nil {
					ls = &LoopSpec{}
					cur.Loops[n] = ls
				}
				arg := ""
				if len(fs) == 3 {
					arg = fs[2]
				}
				switch fs[1] {
				case "invariant":
					ls.Invariants = append(ls.Invariants, mkClause("invariant", arg))
				case "decreases":
					ls.Decreases = mkClause("decreases", arg)
				case "split":
					// split [label] <count> <base expression>
					a := strings.TrimSpace(arg)
					lab := ""
					if strings.HasPrefix(a, "[") {
						if j := strings.Index(a, "]"); j > 0 {
							lab = a[1:j]
							a = strings.TrimSpace(a[j+1:])
						}
					}
					fs2 := strings.SplitN(a, " ", 2)
					cnt, err := strconv.Atoi(fs2[0])
					if err != nil || len(fs2) != 2 {
						addErr(ln, "split needs: [label] <count> <base expression>")
						continue
					}
					ls.Splits = append(ls.Splits, &SplitHint{Label: lab, Count: cnt, Base: &Clause{Kind: "expr", Label: "split-" + lab, Text: fs2[1], Line: ln, File: path}})
					lastClause = ls.Splits[len(ls.Splits)-1].Base
				case "unroll":
					ls.Unroll, _ = strconv.Atoi(strings.TrimSpace(arg))
				case "assigns":
					ls.HasAssigns = true
					if strings.TrimSpace(arg) != "" && strings.TrimSpace(arg) != "nothing" {
						for _, it := range splitTop(arg, ',') {
							a := &AssignItem{Text: strings.TrimSpace(it)}
							ls.Assigns = append(ls.Assigns, a)
							lastAssign = a
						}
					}
				default:
					addErr(ln, "unknown loop clause %q", fs[1])
				}
			}
		}
	}
}

// splitTop splits s at sep occurring outside brackets.
func splitTop(s string, sep byte) []string {
	var out []string
	depth := 0
	start := 0
	inStr := byte(0)
	for i := 0; i < len(s); i++ {
		c := s[i]
		if inStr != 0 {
			if c == '\\' {
				i++
			} else if c == inStr {
				inStr = 0
			}
			continue
		}
		switch c {
		case '"', '\'', '`':
			inStr = c
		case '(', '[', '{':
			depth++
		case ')', ']', '}':
			depth--
		default:
			if c == sep && depth == 0 {
				out = append(out, s[start:i])
				start = i + 1
			}
		}
	}
	out = append(out, s[start:])
	return out
}

// rewriteImplies turns "a ==> b" (lowest precedence, right assoc, at any bracket depth) into "(!(a) || (b))".
func rewriteImplies(s string) string {
	// first recurse into bracket groups
	var sb strings.Builder
	i := 0
	for i < len(s) {
		c := s[i]
		if c == '"' || c == '\'' || c == '`' {
			j := i + 1
			for j < len(s) && s[j] != c {
				if s[j] == '\\' {
					j++
				}
				j++
			}
			if j >= len(s) {
				j = len(s) - 1
			}
			sb.WriteString(s[i : j+1])
			i = j + 1
			continue
		}
		if c == '(' || c == '[' || c == '{' {
			// find matching
			depth := 0
			j := i
			inStr := byte(0)
			for ; j < len(s); j++ {
				d := s[j]
				if inStr != 0 {
					if d == '\\' {
						j++
					} else if d == inStr {
						inStr = 0
					}
					continue
				}
				if d == '"' || d == '\'' || d == '`' {
					inStr = d
				} else if d == '(' || d == '[' || d == '{' {
					depth++
				} else if d == ')' || d == ']' || d == '}' {
					depth--
					if depth == 0 {
						break
					}
				}
			}
			if j >= len(s) {
				sb.WriteString(s[i:])
				break
			}
			inner := s[i+1 : j]
			if c == '{' {
				// statements: handle "return X" bodies and ';'
				parts := splitTop(inner, ';')
				for k, p := range parts {
					tp := strings.TrimSpace(p)
					if strings.HasPrefix(tp, "return ") {
						parts[k] = " return " + rewriteImplies(tp[7:]) + " "
					} else {
						parts[k] = rewriteImplies(p)
					}
				}
				inner = strings.Join(parts, ";")
			} else {
				parts := splitTop(inner, ',')
				for k, p := range parts {
					parts[k] = rewriteImplies(p)
				}
				inner = strings.Join(parts, ",")
			}
			sb.WriteByte(c)
			sb.WriteString(inner)
			sb.WriteByte(s[j])
			i = j + 1
			continue
		}
		sb.WriteByte(c)
		i++
	}
	t := sb.String()
	// now split at top-level ==>
	depth := 0
	inStr := byte(0)
	for k := 0; k+2 < len(t); k++ {
		d := t[k]
		if inStr != 0 {
			if d == '\\' {
				k++
			} else if d == inStr {
				inStr = 0
			}
			continue
		}
		switch d {
		case '"', '\'', '`':
			inStr = d
		case '(', '[', '{':
			depth++
		case ')', ']', '}':
			depth--
		case '=':
			if depth == 0 && t[k:k+3] == "==>" {
				return "(!(" + t[:k] + ") || (" + rewriteImplies(t[k+3:]) + "))"
			}
		}
	}
	return t
}

// ---------------- wrapper generation

type genCtx struct {
	pkg     *packages.Package
	imports map[string]string // path -> name
	buf     bytes.Buffer
	n       int
	errs    []string
}

func (g *genCtx) qual(p *types.Package) string {
	if p == g.pkg.Types {
		return ""
	}
	g.imports[p.Path()] = p.Name()
	return p.Name()
}

func (g *genCtx) typeStr(t types.Type) string { return types.TypeString(t, g.qual) }

// findFunc locates the function (or closure) AST for a contract key.
func findFunc(pkg *packages.Package, key string) (fd *ast.FuncDecl, lit *ast.FuncLit, obj *types.Func) {
	base := key
	closureIdx := []int{}
	for {
		j := strings.LastIndex(base, "$")
		if j < 0 {
			break
		}
		n, err := strconv.Atoi(base[j+1:])
		if err != nil {
			break
		}
		closureIdx = append([]int{n}, closureIdx...)
		base = base[:j]
	}
	recv := ""
	name := base
	if j := strings.Index(base, "."); j >= 0 {
		recv, name = base[:j], base[j+1:]
	}
	for _, f := range pkg.Syntax {
		for _, d := range f.Decls {
			d, ok := d.(*ast.FuncDecl)
			if !ok || d.Name.Name != name {
				continue
			}
			r := ""
			if d.Recv != nil && len(d.Recv.List) == 1 {
				t := d.Recv.List[0].Type
				if s, ok := t.(*ast.StarExpr); ok {
					t = s.X
				}
				if id, ok := t.(*ast.Ident); ok {
					r = id.Name
				}
			}
			if r != recv {
				continue
			}
			fd = d
			obj, _ = pkg.TypesInfo.Defs[d.Name].(*types.Func)
		}
	}
	if fd == nil || fd.Body == nil {
		return nil, nil, nil
	}
	if len(closureIdx) == 0 {
		return fd, nil, obj
	}
	// walk closures: $k is the k-th FuncLit (1-based, in source order, not nested inside another FuncLit)
	var body ast.Node = fd.Body
	for _, k := range closureIdx {
		var lits []*ast.FuncLit
		ast.Inspect(body, func(n ast.Node) bool {
			if l, ok := n.(*ast.FuncLit); ok {
				lits = append(lits, l)
				return false
			}
			return true
		})
		if k < 1 || k > len(lits) {
			return nil, nil, nil
		}
		lit = lits[k-1]
		body = lit.Body
	}
	return fd, lit, obj
}

// loopsOf returns the for/range statements of a function body in source order (not descending into closures).
// localsOf lists the local variables of a function body in source order as "name:type" (closures
// excluded). Recorded in the contract file by `govc locals`; compared with the current list to
// follow pure renames of the locals a loop invariant mentions.
func (g *genCtx) localsOf(body *ast.BlockStmt, si *sigInfo) []string {
	skip := map[*types.Var]bool{}
	for _, p := range si.params {
		skip[p] = true
	}
	for _, r := range si.results {
		skip[r] = true
	}
	var out []string
	ast.Inspect(body, func(n ast.Node) bool {
		switch n := n.(type) {
		case *ast.FuncLit:
			return false
		case *ast.Ident:
			if v, ok := g.pkg.TypesInfo.Defs[n].(*types.Var); ok && !v.IsField() && !skip[v] && n.Name != "_" {
				out = append(out, n.Name+":"+strings.ReplaceAll(g.typeStr(v.Type()), " ", ""))
			}
		}
		return true
	})
	return out
}

// renamesOf maps recorded locals that no longer exist to current locals that were not recorded, when
// for their type the two groups have the same size (matched in source order). Used for loop
// invariants only: they are proof hints, so a wrong guess can only make a proof fail.
func renamesOf(recorded, current []string) map[string]string {
	split := func(x string) (string, string) {
		i := strings.Index(x, ":")
		if i < 0 {
			return x, ""
		}
		return x[:i], x[i+1:]
	}
	curNames, recNames := map[string]bool{}, map[string]bool{}
	for _, x := range current {
		n, _ := split(x)
		curNames[n] = true
	}
	for _, x := range recorded {
		n, _ := split(x)
		recNames[n] = true
	}
	gone, fresh := map[string][]string{}, map[string][]string{}
	seen := map[string]bool{}
	for _, x := range recorded {
		n, t := split(x)
		if !curNames[n] && !seen["r"+n] {
			gone[t] = append(gone[t], n)
			seen["r"+n] = true
		}
	}
	for _, x := range current {
		n, t := split(x)
		if !recNames[n] && !seen["c"+n] {
			fresh[t] = append(fresh[t], n)
			seen["c"+n] = true
		}
	}
	out := map[string]string{}
	for t, g := range gone {
		if f := fresh[t]; len(f) == len(g) {
			for i := range g {
				out[g[i]] = f[i]
			}
		}
	}
	return out
}

// renameIdents renames free identifiers (not field selectors) of an expression text.
func renameIdents(text string, m map[string]string) string {
	e, err := parser.ParseExpr(stripOldText(text))
	if err != nil || stripOldText(text) != text {
		// keep old(...) texts as they are: rename on the token level instead
		re := regexp.MustCompile(`[A-Za-z_][A-Za-z0-9_]*`)
		idx := re.FindAllStringIndex(text, -1)
		var b strings.Builder
		last := 0
		for _, ix := range idx {
			w := text[ix[0]:ix[1]]
			if nn, ok := m[w]; ok && (ix[0] == 0 || text[ix[0]-1] != '.') {
				b.WriteString(text[last:ix[0]])
				b.WriteString(nn)
				last = ix[1]
			}
		}
		b.WriteString(text[last:])
		return b.String()
	}
	skip := map[*ast.Ident]bool{}
	ast.Inspect(e, func(n ast.Node) bool {
		if se, ok := n.(*ast.SelectorExpr); ok {
			skip[se.Sel] = true
		}
		return true
	})
	ast.Inspect(e, func(n ast.Node) bool {
		if id, ok := n.(*ast.Ident); ok && !skip[id] {
			if nn, ok := m[id.Name]; ok {
				id.Name = nn
			}
		}
		return true
	})
	var b bytes.Buffer
	printer.Fprint(&b, token.NewFileSet(), e)
	return b.String()
}

func loopsOf(body *ast.BlockStmt) []ast.Stmt {
	var out []ast.Stmt
	ast.Inspect(body, func(n ast.Node) bool {
		switch n := n.(type) {
		case *ast.FuncLit:
			return false
		case *ast.ForStmt:
			out = append(out, n)
		case *ast.RangeStmt:
			out = append(out, n)
		}
		return true
	})
	return out
}

type sigInfo struct {
	params   []*types.Var // including receiver first
	results  []*types.Var
	resNames []string
}

func (g *genCtx) sigOf(c *Contract) (*sigInfo, bool) {
	si := &sigInfo{}
	var sig *types.Signature
	if c.Lit != nil {
		tv, ok := g.pkg.TypesInfo.Types[c.Lit]
		if !ok {
			return nil, false
		}
		sig = tv.Type.(*types.Signature)
	} else if c.Obj != nil {
		sig = c.Obj.Type().(*types.Signature)
	} else {
		return nil, false
	}
	c.TypesSig = sig
	if sig.Recv() != nil {
		si.params = append(si.params, sig.Recv())
	}
	for i := 0; i < sig.Params().Len(); i++ {
		si.params = append(si.params, sig.Params().At(i))
	}
	n := sig.Results().Len()
	for i := 0; i < n; i++ {
		v := sig.Results().At(i)
		si.results = append(si.results, v)
		name := v.Name()
		if name == "" || name == "_" {
			if n == 1 {
				name = "result"
			} else {
				name = fmt.Sprintf("result%d", i)
			}
		}
		si.resNames = append(si.resNames, name)
	}
	c.ResNames = si.resNames
	return si, true
}

// compileClause generates the wrapper for one clause. pos is where identifiers are resolved.
// mode: "pre" (params = entry values), "post" (params = entry values, results bound), "loop" (names = current cells, old(x) = entry).
func (g *genCtx) compileClause(c *Contract, cl *Clause, si *sigInfo, pos token.Pos, mode string, retType string) {
	g.compileClauseX(c, cl, si, pos, mode, retType, nil)
}

// compileClauseX: extras are "name type" declarations of callee values (c_self, c_<param>,
// c_<result> of an invoke clause); they are passed like results, in this order.
func (g *genCtx) compileClauseX(c *Contract, cl *Clause, si *sigInfo, pos token.Pos, mode string, retType string, extras []string) {
	text := rewriteImplies(cl.Text)
	expr, err := parser.ParseExpr(text)
	if err != nil {
		g.errs = append(g.errs, fmt.Sprintf("%s:%d: clause [%s] does not parse: %v", cl.File, cl.Line, cl.Label, err))
		return
	}
	scope := g.pkg.Types.Scope().Innermost(pos)
	if scope == nil {
		scope = g.pkg.Types.Scope()
	}
	// For file scope resolution (imports) we need the file scope containing pos: Innermost handles it.
	isParam := map[*types.Var]bool{}
	for _, p := range si.params {
		isParam[p] = true
	}
	resIdx := map[string]int{}
	for i, n := range si.resNames {
		resIdx[n] = i
	}
	var params []WParam
	seen := map[string]bool{}
	addParam := func(p WParam) {
		if seen[p.Name] {
			return
		}
		if p.Var != nil && p.Var.Pos().IsValid() {
			pp := g.pkg.Fset.Position(p.Var.Pos())
			p.PosKey = fmt.Sprintf("%s@%s:%d:%d", p.Var.Name(), pp.Filename, pp.Line, pp.Column)
		}
		seen[p.Name] = true
		params = append(params, p)
	}
	// Walk the AST: track bound names (FuncLit params), rewrite idents and old(...) calls.
	// We produce the text by printing the modified AST.
	type frame struct{ names map[string]bool }
	var bound []map[string]bool
	isBound := func(n string) bool {
		for i := len(bound) - 1; i >= 0; i-- {
			if bound[i][n] {
				return true
			}
		}
		return false
	}
	var oldNodes []*ast.CallExpr
	var rewrite func(n ast.Node, inOld bool) ast.Node
	rewriteExpr := func(e ast.Expr, inOld bool) ast.Expr {
		if e == nil {
			return nil
		}
		return rewrite(e, inOld).(ast.Expr)
	}
	rewrite = func(n ast.Node, inOld bool) ast.Node {
		switch n := n.(type) {
		case *ast.Ident:
			if isBound(n.Name) || n.Name == "_" || n.Name == "nil" || n.Name == "true" || n.Name == "false" {
				return n
			}
			if nn, ok := c.SigRenames[n.Name]; ok {
				// a parameter or named result that was renamed since the contract was written
				n = &ast.Ident{Name: nn}
			}
			for i, x := range extras {
				if f := strings.SplitN(x, " ", 2); f[0] == n.Name {
					addParam(WParam{Name: n.Name, Kind: PKResult, ResIdx: i, TypeStr: f[1]})
					return n
				}
			}
			if mode == "post" {
				if i, ok := resIdx[n.Name]; ok && !inOld {
					addParam(WParam{Name: n.Name, Kind: PKResult, ResIdx: i, Type: si.results[i].Type()})
					return n
				}
			}
			if c.External {
				for _, pv := range si.params {
					if pv.Name() == n.Name {
						addParam(WParam{Name: n.Name, Kind: PKEntry, Var: pv, Type: pv.Type()})
						return n
					}
				}
			}
			_, obj := scope.LookupParent(n.Name, pos)
			if obj == nil && cl.Kind == "invariant" || obj == nil && cl.Kind == "decreases" {
				if nn, ok := c.Renames[n.Name]; ok {
					if _, o2 := scope.LookupParent(nn, pos); o2 != nil {
						n = &ast.Ident{Name: nn}
						obj = o2
					}
				}
			}
			if obj == nil {
				// may be a result name that is unnamed ("result")
				return n
			}
			switch o := obj.(type) {
			case *types.PkgName:
				g.imports[o.Imported().Path()] = o.Name()
				return n
			case *types.Var:
				if o.Parent() == g.pkg.Types.Scope() || o.IsField() {
					return n // package-level variable
				}
				if isParam[o] && (mode != "loop" || inOld) {
					nm := n.Name
					if mode == "loop" {
						nm = "old_" + n.Name
					}
					addParam(WParam{Name: nm, Kind: PKEntry, Var: o, Type: o.Type()})
					return &ast.Ident{Name: nm}
				}
				if mode == "post" || mode == "pre" {
					// a non-parameter local in a function-level clause: only named results are allowed
					for i, r := range si.results {
						if r == o {
							if mode == "post" && !inOld {
								addParam(WParam{Name: n.Name, Kind: PKResult, ResIdx: i, Type: r.Type()})
								return n
							}
						}
					}
					if c.Lit != nil && !o.Pos().IsValid() == false && !(c.Lit.Pos() <= o.Pos() && o.Pos() < c.Lit.End()) {
						// a variable of the enclosing function captured by the closure under contract
						if inOld {
							addParam(WParam{Name: "old_" + n.Name, Kind: PKEntry, Var: o, Type: o.Type()})
							return &ast.Ident{Name: "old_" + n.Name}
						}
						addParam(WParam{Name: n.Name, Kind: PKCur, Var: o, Type: o.Type()})
						return n
					}
					g.errs = append(g.errs, fmt.Sprintf("%s:%d: clause [%s]: local %q not allowed here", cl.File, cl.Line, cl.Label, n.Name))
					return n
				}
				addParam(WParam{Name: n.Name, Kind: PKCur, Var: o, Type: o.Type()})
				return n
			}
			return n
		case *ast.SelectorExpr:
			n.X = rewriteExpr(n.X, inOld)
			return n
		case *ast.KeyValueExpr:
			// struct literal key: do not rewrite the key if it is an ident
			if _, ok := n.Key.(*ast.Ident); !ok {
				n.Key = rewriteExpr(n.Key, inOld)
			}
			n.Value = rewriteExpr(n.Value, inOld)
			return n
		case *ast.CallExpr:
			if id, ok := n.Fun.(*ast.Ident); ok && id.Name == "old" && len(n.Args) == 1 && !isBound("old") {
				arg := rewriteExpr(n.Args[0], true)
				if id2, ok := arg.(*ast.Ident); ok && strings.HasPrefix(id2.Name, "old_") {
					return arg // old(param) in loop mode: just the entry value
				}
				if mode != "loop" {
					if _, ok := arg.(*ast.Ident); ok {
						return arg // old(param): params already denote entry values
					}
				}
				n.Args[0] = arg
				oldNodes = append(oldNodes, n)
				return n
			}
			n.Fun = rewriteExpr(n.Fun, inOld)
			for i, a := range n.Args {
				n.Args[i] = rewriteExpr(a, inOld)
			}
			return n
		case *ast.FuncLit:
			names := map[string]bool{}
			for _, f := range n.Type.Params.List {
				for _, nm := range f.Names {
					names[nm.Name] = true
				}
				// types may mention packages
				ast.Inspect(f.Type, func(x ast.Node) bool {
					if se, ok := x.(*ast.SelectorExpr); ok {
						if id, ok := se.X.(*ast.Ident); ok {
							if _, obj := scope.LookupParent(id.Name, pos); obj != nil {
								if pn, ok := obj.(*types.PkgName); ok {
									g.imports[pn.Imported().Path()] = pn.Name()
								}
							}
						}
					}
					return true
				})
			}
			bound = append(bound, names)
			for _, st := range n.Body.List {
				switch st := st.(type) {
				case *ast.ReturnStmt:
					for i, r := range st.Results {
						st.Results[i] = rewriteExpr(r, inOld)
					}
				case *ast.AssignStmt:
					for i, r := range st.Rhs {
						st.Rhs[i] = rewriteExpr(r, inOld)
					}
					if st.Tok == token.DEFINE {
						for _, l := range st.Lhs {
							if id, ok := l.(*ast.Ident); ok {
								names[id.Name] = true
							}
						}
					}
				case *ast.IfStmt:
					// allow simple if cond { return x }
					st.Cond = rewriteExpr(st.Cond, inOld)
					for _, s2 := range st.Body.List {
						if rs, ok := s2.(*ast.ReturnStmt); ok {
							for i, r := range rs.Results {
								rs.Results[i] = rewriteExpr(r, inOld)
							}
						}
					}
				default:
					g.errs = append(g.errs, fmt.Sprintf("%s:%d: clause [%s]: unsupported statement in closure", cl.File, cl.Line, cl.Label))
				}
			}
			bound = bound[:len(bound)-1]
			return n
		case *ast.BinaryExpr:
			n.X = rewriteExpr(n.X, inOld)
			n.Y = rewriteExpr(n.Y, inOld)
			return n
		case *ast.UnaryExpr:
			if id, ok := n.X.(*ast.Ident); ok && n.Op == token.AND && mode == "loop" && !isBound(id.Name) {
				// &x of a function-level local: the address of the real variable, not of a copy
				if _, obj := scope.LookupParent(id.Name, pos); obj != nil {
					if o, ok := obj.(*types.Var); ok && !isParam[o] && !o.IsField() && o.Parent() != g.pkg.Types.Scope() {
						nm := "addr_" + id.Name
						addParam(WParam{Name: nm, Kind: PKAddr, Var: o, Type: types.NewPointer(o.Type())})
						return &ast.Ident{Name: nm}
					}
				}
			}
			n.X = rewriteExpr(n.X, inOld)
			return n
		case *ast.ParenExpr:
			n.X = rewriteExpr(n.X, inOld)
			return n
		case *ast.IndexExpr:
			n.X = rewriteExpr(n.X, inOld)
			n.Index = rewriteExpr(n.Index, inOld)
			return n
		case *ast.SliceExpr:
			n.X = rewriteExpr(n.X, inOld)
			n.Low = rewriteExpr(n.Low, inOld)
			n.High = rewriteExpr(n.High, inOld)
			n.Max = rewriteExpr(n.Max, inOld)
			return n
		case *ast.StarExpr:
			n.X = rewriteExpr(n.X, inOld)
			return n
		case *ast.TypeAssertExpr:
			n.X = rewriteExpr(n.X, inOld)
			return n
		case *ast.CompositeLit:
			if n.Type != nil {
				ast.Inspect(n.Type, func(x ast.Node) bool {
					if se, ok := x.(*ast.SelectorExpr); ok {
						if id, ok := se.X.(*ast.Ident); ok {
							if _, obj := scope.LookupParent(id.Name, pos); obj != nil {
								if pn, ok := obj.(*types.PkgName); ok {
									g.imports[pn.Imported().Path()] = pn.Name()
								}
							}
						}
					}
					return true
				})
			}
			for i, e := range n.Elts {
				n.Elts[i] = rewriteExpr(e, inOld)
			}
			return n
		case *ast.BasicLit:
			return n
		}
		return n
	}
	expr = rewriteExpr(expr, false)

	// Determine types of old(...) arguments by type-checking the clause with old() stripped:
	// we do this by generating the wrapper with a generic-free trick: old_T stubs are not available,
	// so we type-check a copy where old(e) is replaced by e.
	g.n++
	wname := fmt.Sprintf("ᐸ%s_%s_%dᐳ", sanitize(c.Key), sanitize(cl.Label), g.n)
	wname = strings.ReplaceAll(wname, ".", "_")
	wname = "vc_" + strings.Trim(strings.ReplaceAll(strings.ReplaceAll(wname, "ᐸ", ""), "ᐳ", ""), "_")
	var plist []string
	for _, p := range params {
		if p.Type == nil {
			plist = append(plist, p.Name+" "+p.TypeStr)
			continue
		}
		plist = append(plist, p.Name+" "+g.typeStr(p.Type))
	}
	render := func(e ast.Expr) string {
		var b bytes.Buffer
		printer.Fprint(&b, token.NewFileSet(), e)
		return b.String()
	}
	// Final text: old(e) -> (func() T { ghostOld(); return e })()
	final := render(expr)
	if len(oldNodes) > 0 {
		var err error
		final, err = g.expandOld(expr, oldNodes, plist, retType, pos)
		if err != nil {
			g.errs = append(g.errs, fmt.Sprintf("%s:%d: clause [%s]: %v", cl.File, cl.Line, cl.Label, err))
			return
		}
	}
	cl.Wrapper = wname
	cl.Params = params
	cl.RetType = retType
	fmt.Fprintf(&g.buf, "// %s %s [%s] (%s:%d)\nfunc %s(%s) %s { return %s }\n\n", c.Key, cl.Kind, cl.Label, filepath.Base(cl.File), cl.Line,
		wname, strings.Join(plist, ", "), retType, final)
}

// expandOld determines the type of each old(e) and renders the final clause text.
// Strategy: innermost-first; old(e) is replaced by ghostOldAny-free text using a typed closure.
func (g *genCtx) expandOld(expr ast.Expr, oldNodes []*ast.CallExpr, plist []string, retType string, pos token.Pos) (string, error) {
	// 1. render with old(e) -> (e) to type-check and learn types. To find the nodes again after
	// re-parsing we wrap them as ghostOldMark_i(e) where ghostOldMark_i is declared as a variable of
	// function type in an enclosing closure... that needs the type. Instead: identity via parenthesised
	// positions — we re-parse and collect ParenExpr nodes tagged by a unique integer literal:
	//   old(e)  ->  ghostOldTag(i, e)   cannot type without generics.
	// So do it in two steps: (a) strip to e, record source text of e; (b) type-check e alone inside a
	// closure that declares the bound variables in scope at that point.
	type oldInfo struct {
		node  *ast.CallExpr
		bound []string // "k int" declarations of enclosing FuncLits
	}
	var infos []*oldInfo
	var walk func(n ast.Node, bound []string)
	walk = func(n ast.Node, bound []string) {
		ast.Inspect(n, func(x ast.Node) bool {
			switch x := x.(type) {
			case *ast.FuncLit:
				nb := append([]string{}, bound...)
				for _, f := range x.Type.Params.List {
					var b bytes.Buffer
					printer.Fprint(&b, token.NewFileSet(), f.Type)
					for _, nm := range f.Names {
						nb = append(nb, nm.Name+" "+b.String())
					}
				}
				// locals defined with := inside the closure body before use are not supported inside old()
				walk(x.Body, nb)
				return false
			case *ast.CallExpr:
				for _, on := range oldNodes {
					if on == x {
						infos = append(infos, &oldInfo{node: x, bound: bound})
					}
				}
			}
			return true
		})
	}
	walk(expr, nil)
	types_ := map[*ast.CallExpr]string{}
	render := func(e ast.Expr) string {
		var b bytes.Buffer
		printer.Fprint(&b, token.NewFileSet(), e)
		return b.String()
	}
	// strip nested old inside e for type-checking
	stripText := func(e ast.Expr) string {
		s := render(e)
		return s
	}
	for _, oi := range infos {
		etxt := stripOldText(stripText(oi.node.Args[0]))
		all := append(append([]string{}, plist...), oi.bound...)
		src := fmt.Sprintf("func(%s) { _ = %s }", strings.Join(all, ", "), etxt)
		fl, err := parser.ParseExpr(src)
		if err != nil {
			return "", fmt.Errorf("old(): %v", err)
		}
		info := &types.Info{Types: map[ast.Expr]types.TypeAndValue{}}
		if err := types.CheckExpr(g.pkg.Fset, g.pkg.Types, pos, fl, info); err != nil {
			return "", fmt.Errorf("old(%s) does not type-check: %v", etxt, err)
		}
		as := fl.(*ast.FuncLit).Body.List[0].(*ast.AssignStmt)
		tv := info.Types[as.Rhs[0]]
		if tv.Type == nil {
			return "", fmt.Errorf("old(%s): no type", etxt)
		}
		t := tv.Type
		if b, ok := t.(*types.Basic); ok && b.Info()&types.IsUntyped != 0 {
			t = types.Default(t)
		}
		types_[oi.node] = g.typeStr(t)
	}
	// 2. rewrite AST nodes: old(e) -> (func() T { ghostOld(); return e })()
	for _, oi := range infos {
		n := oi.node
		T := types_[n]
		src := fmt.Sprintf("(func() %s { ghostOld(); return %s })()", T, render(n.Args[0]))
		ne, err := parser.ParseExpr(src)
		if err != nil {
			return "", err
		}
		ce := ne.(*ast.CallExpr)
		n.Fun = ce.Fun
		n.Args = nil
	}
	return render(expr), nil
}

// stripOldText removes old( ... ) wrappers textually (for type-checking only).
func stripOldText(s string) string {
	for {
		i := strings.Index(s, "old(")
		if i < 0 {
			return s
		}
		if i > 0 {
			c := s[i-1]
			if c == '_' || c >= 'a' && c <= 'z' || c >= 'A' && c <= 'Z' || c >= '0' && c <= '9' || c == '.' {
				// part of another identifier: skip by replacing temporarily
				s = s[:i] + "o\x00ld(" + s[i+4:]
				continue
			}
		}
		depth := 0
		j := i + 3
		for ; j < len(s); j++ {
			if s[j] == '(' {
				depth++
			} else if s[j] == ')' {
				depth--
				if depth == 0 {
					break
				}
			}
		}
		if j >= len(s) {
			return s
		}
		s = s[:i] + "(" + s[i+4:j] + ")" + s[j+1:]
	}
}

// GenerateWrappers produces the overlay source for one package.
func GenerateWrappers(pkg *packages.Package, cs *ContractSet) (string, []string) {
	g := &genCtx{pkg: pkg, imports: map[string]string{}}
	var mine []*Contract
	for _, c := range cs.Order {
		if c.PkgPath == pkg.PkgPath {
			mine = append(mine, c)
		}
	}
	for _, c := range mine {
		c.Pkg = pkg
		if c.Stale != "" && !c.StaleLoopsOnly {
			continue
		}
		n0, b0 := len(g.errs), g.buf.Len()
		g.genOne(c, mine, c.Stale != "")
		if len(g.errs) > n0 && !c.IsIface && !c.Lemma && !c.External {
			// the contract of one function does not fit the code any more: report that function, keep
			// the rest of the package checkable (and, when only loop clauses are affected, keep its
			// pre/postconditions for its callers)
			msgs := strings.Join(g.errs[n0:], "; ")
			g.errs = g.errs[:n0]
			g.buf.Truncate(b0)
			if c.Stale == "" {
				c.Stale = msgs
				g.genOne(c, mine, true)
				c.StaleLoopsOnly = len(g.errs) == n0
				if !c.StaleLoopsOnly {
					g.errs = g.errs[:n0]
					g.buf.Truncate(b0)
				}
			} else {
				c.StaleLoopsOnly = false
			}
		}
	}
	return g.finish()
}

func (g *genCtx) genOne(c *Contract, mine []*Contract, skipLoops bool) {
	pkg := g.pkg
	for once := true; once; once = false {
		if c.IsIface {
			g.compileIface(c)
			continue
		}
		if c.Lemma {
			g.compileLemma(c)
			continue
		}
		if ext, ok := g.externalFunc(c); ok {
			c.External = true
			c.Trusted = true
			c.Obj = ext
			si, ok := g.sigOf(c)
			if !ok {
				g.errs = append(g.errs, fmt.Sprintf("%s:%d: cannot get signature of %s", c.File, c.Line, c.Key))
				continue
			}
			fpos := g.contractFilePos()
			for _, cl := range c.Requires {
				g.compileClause(c, cl, si, fpos, "pre", "bool")
			}
			for _, cl := range c.Ensures {
				g.compileClause(c, cl, si, fpos, "post", "bool")
			}
			for _, a := range c.Assigns {
				g.compileAssign(c, a, si, fpos, "pre")
			}
			continue
		}
		fd, lit, obj := findFunc(pkg, c.Key)
		if fd == nil {
			g.errs = append(g.errs, fmt.Sprintf("%s:%d: contract for unknown function %s (stale contract)", c.File, c.Line, c.Key))
			continue
		}
		c.Fd, c.Lit, c.Obj = fd, lit, obj
		si, ok := g.sigOf(c)
		if !ok {
			g.errs = append(g.errs, fmt.Sprintf("%s:%d: cannot get signature of %s", c.File, c.Line, c.Key))
			continue
		}
		c.CurSig = nil
		for _, v := range si.params {
			c.CurSig = append(c.CurSig, v.Name())
		}
		c.CurSig = append(c.CurSig, "->")
		for _, v := range si.results {
			nm := v.Name()
			if nm == "" {
				nm = "_"
			}
			c.CurSig = append(c.CurSig, nm)
		}
		c.SigRenames = nil
		if len(c.SigNames) == len(c.CurSig) {
			for i, old := range c.SigNames {
				if nw := c.CurSig[i]; old != nw && old != "_" && nw != "_" && old != "->" && nw != "->" {
					if c.SigRenames == nil {
						c.SigRenames = map[string]string{}
					}
					c.SigRenames[old] = nw
				}
			}
		}
		body := fd.Body
		if lit != nil {
			body = lit.Body
		}
		endPos := body.Rbrace
		c.ScopePos = endPos
		// function-level clauses are resolved in the scope at the opening of the body so that only
		// parameters and named results are visible.
		fpos := body.Lbrace + 1
		for _, cl := range c.Requires {
			g.compileClause(c, cl, si, fpos, "pre", "bool")
		}
		for _, cg := range c.Cases {
			for _, alt := range cg.Alts {
				for _, a := range alt {
					g.compileClause(c, a.Cl, si, fpos, "pre", "bool")
				}
			}
		}
		for _, cl := range c.Ensures {
			g.compileClause(c, cl, si, fpos, "post", "bool")
		}
		for _, a := range c.Assigns {
			g.compileAssign(c, a, si, fpos, "pre")
		}
		for _, inv := range []struct {
			m   map[string][]*Clause
			pre bool
		}{{c.InvokeEnsures, false}, {c.InvokeRequires, true}} {
			var ks []string
			for k := range inv.m {
				ks = append(ks, k)
			}
			sort.Strings(ks)
			for _, k := range ks {
				var ic *Contract
				for _, o := range mine {
					if o.IsIface && o.Key == k {
						ic = o
					}
				}
				if ic == nil {
					g.errs = append(g.errs, fmt.Sprintf("%s:%d: invoke %s: no iface contract of that name in this package", c.File, c.Line, k))
					continue
				}
				iparams, iresults, err := splitSig(ic.Sig)
				if err != nil {
					g.errs = append(g.errs, fmt.Sprintf("%s:%d: %v", c.File, c.Line, err))
					continue
				}
				j := strings.LastIndex(k, ".")
				ifaceName := strings.TrimPrefix(k[:j], g.pkg.Name+".")
				if ic.FuncType != "" {
					ifaceName = strings.ReplaceAll(ic.FuncType, g.pkg.Name+".", "")
				}
				if inv.pre {
					iresults = nil
				}
				extras := []string{"c_self " + ifaceName}
				for _, d := range append(append([]string{}, iparams...), iresults...) {
					extras = append(extras, "c_"+d)
				}
				for _, cl := range inv.m[k] {
					// resolved in the function's outermost block: parameters, results, function-level
					// locals (current values); old(e): the state just before the call (ensures) or at
					// function entry (requires)
					g.compileClauseX(c, cl, si, body.Rbrace-1, "loop", "bool", extras)
				}
			}
		}
		var ikeys []string
		for k := range c.InvokeAssigns {
			ikeys = append(ikeys, k)
		}
		sort.Strings(ikeys)
		for _, k := range ikeys {
			for _, a := range c.InvokeAssigns[k] {
				g.compileAssign(c, a, si, body.Rbrace-1, "loop")
			}
		}
		var ckeys []string
		for k := range c.CallsiteRequires {
			ckeys = append(ckeys, k)
		}
		sort.Strings(ckeys)
		for _, k := range ckeys {
			for _, cl := range c.CallsiteRequires[k] {
				// resolved in the function's outermost block: parameters, results, function-level locals
				var extras []string
				if k == "copy" {
					// the built-in copy: its two operands are visible as c_dst, c_src
					extras = []string{"c_dst []byte", "c_src []byte"}
				}
				g.compileClauseX(c, cl, si, body.Rbrace-1, "loop", "bool", extras)
			}
		}
		if skipLoops {
			continue
		}
		c.Renames = nil
		if len(c.Loops) > 0 {
			c.CurLocals = g.localsOf(body, si)
		}
		if len(c.Locals) > 0 {
			if rn := renamesOf(c.Locals, g.localsOf(body, si)); len(rn) > 0 {
				c.Renames = rn
			}
		}
		loops := loopsOf(body)
		var ords []int
		for k := range c.Loops {
			ords = append(ords, k)
		}
		sort.Ints(ords)
		for _, k := range ords {
			ls := c.Loops[k]
			if k < 1 || k > len(loops) {
				g.errs = append(g.errs, fmt.Sprintf("%s:%d: %s has no loop %d (stale contract)", c.File, c.Line, c.Key, k))
				continue
			}
			var lpos token.Pos
			switch l := loops[k-1].(type) {
			case *ast.ForStmt:
				lpos = l.Body.Lbrace + 1
			case *ast.RangeStmt:
				lpos = l.Body.Lbrace + 1
			}
			for _, cl := range ls.Invariants {
				g.compileClause(c, cl, si, lpos, "loop", "bool")
			}
			if ls.Decreases != nil {
				g.compileClause(c, ls.Decreases, si, lpos, "loop", "int")
			}
			for _, sp := range ls.Splits {
				g.compileClause(c, sp.Base, si, lpos, "loop", "int")
			}
			for _, a := range ls.Assigns {
				g.compileAssign(c, a, si, lpos, "loop")
			}
		}
	}
}

func (g *genCtx) finish() (string, []string) {
	pkg := g.pkg
	var out bytes.Buffer
	out.WriteString("//go:build verif\n\n// Code generated by govc from " + contractFile + "; never written to the repository.\n\npackage " + pkg.Name + "\n\n")
	var paths []string
	for p := range g.imports {
		paths = append(paths, p)
	}
	sort.Strings(paths)
	// only what the generated wrappers actually mention
	var used []string
	var code []byte
	for _, l := range bytes.Split(g.buf.Bytes(), []byte("\n")) {
		if !bytes.HasPrefix(bytes.TrimSpace(l), []byte("//")) {
			code = append(append(code, l...), '\n')
		}
	}
	for _, p := range paths {
		if regexp.MustCompile(`(^|[^A-Za-z0-9_."])`+regexp.QuoteMeta(g.imports[p])+`\.`).Match(code) {
			used = append(used, p)
		}
	}
	paths = used
	if len(paths) > 0 {
		out.WriteString("import (\n")
		for _, p := range paths {
			fmt.Fprintf(&out, "\t%s %q\n", g.imports[p], p)
		}
		out.WriteString(")\n\n")
	}
	out.Write(g.buf.Bytes())
	return out.String(), g.errs
}

// compileAssign: items are  *X | X.f | bytes(S) | stream(R) | out(W)
func (g *genCtx) compileAssign(c *Contract, a *AssignItem, si *sigInfo, pos token.Pos, mode string) {
	t := strings.TrimSpace(a.Text)
	cl := &Clause{Kind: "assigns", Label: "assigns", Line: c.Line, File: c.File}
	if t == "everything" {
		a.Kind = "everything"
		return
	}
	switch {
	case strings.HasPrefix(t, "*"):
		a.Kind = "obj"
		cl.Text = t[1:]
	case strings.HasPrefix(t, "bytes(") && strings.HasSuffix(t, ")"):
		a.Kind = "bytes"
		cl.Text = t[6 : len(t)-1]
	case strings.HasPrefix(t, "stream(") && strings.HasSuffix(t, ")"):
		a.Kind = "stream"
		cl.Text = t[7 : len(t)-1]
	case strings.HasPrefix(t, "instream(") && strings.HasSuffix(t, ")"):
		a.Kind = "instream" // the read position of a ghost stream only
		cl.Text = t[9 : len(t)-1]
	case strings.HasPrefix(t, "outstream(") && strings.HasSuffix(t, ")"):
		a.Kind = "outstream" // what was written to a ghost stream only
		cl.Text = t[10 : len(t)-1]
	case strings.HasPrefix(t, "elems(") && strings.HasSuffix(t, ")"):
		a.Kind = "elems"
		cl.Text = t[6 : len(t)-1]
	default:
		j := strings.LastIndex(t, ".")
		if j < 0 {
			g.errs = append(g.errs, fmt.Sprintf("%s:%d: bad assigns item %q", c.File, c.Line, t))
			return
		}
		a.Kind = "field"
		a.Field = t[j+1:]
		cl.Text = t[:j]
	}
	if len(c.SigRenames) > 0 {
		cl.Text = renameIdents(cl.Text, c.SigRenames)
	}
	// learn the type of the expression
	scopePos := pos
	var plist []string
	// type-check to learn the type: build a param list lazily via compileClause with a placeholder return type
	// We need the type first; use CheckExpr on the raw text in the function scope.
	src := cl.Text
	if mode != "loop" {
		src = stripOldText(src)
	}
	e, err := parser.ParseExpr(stripOldText(src))
	if err != nil {
		g.errs = append(g.errs, fmt.Sprintf("%s:%d: assigns item %q: %v", c.File, c.Line, t, err))
		return
	}
	info := &types.Info{Types: map[ast.Expr]types.TypeAndValue{}}
	var rt string
	if c.External {
		for _, pv := range si.params {
			plist = append(plist, pv.Name()+" "+g.typeStr(pv.Type()))
		}
		fl, perr := parser.ParseExpr(fmt.Sprintf("func(%s) { _ = %s }", strings.Join(plist, ", "), stripOldText(src)))
		if perr != nil {
			g.errs = append(g.errs, fmt.Sprintf("%s:%d: assigns item %q: %v", c.File, c.Line, t, perr))
			return
		}
		if err := types.CheckExpr(g.pkg.Fset, g.pkg.Types, scopePos, fl, info); err != nil {
			g.errs = append(g.errs, fmt.Sprintf("%s:%d: assigns item %q does not type-check: %v", c.File, c.Line, t, err))
			return
		}
		as := fl.(*ast.FuncLit).Body.List[0].(*ast.AssignStmt)
		rt = g.typeStr(info.Types[as.Rhs[0]].Type)
	} else {
		if err := types.CheckExpr(g.pkg.Fset, g.pkg.Types, scopePos, e, info); err != nil {
			g.errs = append(g.errs, fmt.Sprintf("%s:%d: assigns item %q does not type-check: %v", c.File, c.Line, t, err))
			return
		}
		rt = g.typeStr(info.Types[e].Type)
		if a.Kind == "field" || a.Kind == "obj" {
			if _, isPtr := info.Types[e].Type.Underlying().(*types.Pointer); !isPtr {
				// an addressable struct-valued path (e.g. r.utf8): use its address
				cl.Text = "&(" + cl.Text + ")"
				rt = "*" + rt
			}
		}
	}
	g.compileClause(c, cl, si, pos, mode, rt)
	a.Expr = cl
}

func (g *genCtx) compileIface(c *Contract) {
	// iface io.Reader.Read(p []byte) (n int, err error): clauses see "self" plus the declared names.
	var ifaceName string
	if c.FuncType != "" {
		ifaceName = strings.ReplaceAll(c.FuncType, g.pkg.Name+".", "")
	} else {
		j := strings.LastIndex(c.Key, ".")
		ifaceName = c.Key[:j]
		if strings.HasPrefix(ifaceName, g.pkg.Name+".") {
			ifaceName = strings.TrimPrefix(ifaceName, g.pkg.Name+".")
		}
	}
	// generate wrappers directly by text: parameters are self + sig params (+ results for ensures)
	params, results, err := splitSig(c.Sig)
	if err != nil {
		g.errs = append(g.errs, fmt.Sprintf("%s:%d: %v", c.File, c.Line, err))
		return
	}
	if k := strings.Index(ifaceName, "."); k >= 0 && c.FuncType == "" {
		// import the package named by its last path element; the contract file must import it too
		pn := ifaceName[:k]
		for _, imp := range g.pkg.Imports {
			if imp.Name == pn {
				g.imports[imp.PkgPath] = pn
			}
		}
	}
	if c.FuncType != "" {
		for _, imp := range g.pkg.Imports {
			if regexp.MustCompile(`(^|[^A-Za-z0-9_])` + regexp.QuoteMeta(imp.Name) + `\.`).MatchString(ifaceName + " " + c.Sig) {
				g.imports[imp.PkgPath] = imp.Name
			}
		}
	}
	c.ResNames = nil
	for _, r := range results {
		c.ResNames = append(c.ResNames, strings.Fields(r)[0])
	}
	emit := func(cl *Clause, withRes bool, ret string) {
		g.n++
		text := rewriteImplies(cl.Text)
		pl := append([]string{"self " + ifaceName}, params...)
		if withRes {
			pl = append(pl, results...)
		}
		// old(e) in iface contracts: typed by trial — require explicit helper oldInt(...)? We support old() via expandOld.
		expr, err := parser.ParseExpr(text)
		if err != nil {
			g.errs = append(g.errs, fmt.Sprintf("%s:%d: clause [%s] does not parse: %v", cl.File, cl.Line, cl.Label, err))
			return
		}
		var oldNodes []*ast.CallExpr
		ast.Inspect(expr, func(n ast.Node) bool {
			if ce, ok := n.(*ast.CallExpr); ok {
				if id, ok := ce.Fun.(*ast.Ident); ok && id.Name == "old" && len(ce.Args) == 1 {
					oldNodes = append(oldNodes, ce)
				}
			}
			return true
		})
		final := text
		if len(oldNodes) > 0 {
			final, err = g.expandOld(expr, oldNodes, pl, ret, g.contractFilePos())
			if err != nil {
				// fall back to file scope position of the contract file
				g.errs = append(g.errs, fmt.Sprintf("%s:%d: clause [%s]: %v", cl.File, cl.Line, cl.Label, err))
				return
			}
		}
		cl.Wrapper = fmt.Sprintf("vc_iface_%s_%s_%d", sanitize(strings.ReplaceAll(c.Key, ".", "_")), sanitize(cl.Label), g.n)
		cl.Wrapper = strings.ReplaceAll(cl.Wrapper, ".", "_")
		cl.RetType = ret
		cl.Params = nil // positional: self, params..., results...
		fmt.Fprintf(&g.buf, "// iface %s %s [%s]\nfunc %s(%s) %s { return %s }\n\n", c.Key, cl.Kind, cl.Label, cl.Wrapper, strings.Join(pl, ", "), ret, final)
	}
	for _, cl := range c.Requires {
		emit(cl, false, "bool")
	}
	for _, cl := range c.Ensures {
		emit(cl, true, "bool")
	}
	for _, a := range c.Assigns {
		t := strings.TrimSpace(a.Text)
		cl := &Clause{Kind: "assigns", Label: "assigns", Line: c.Line, File: c.File}
		switch {
		case t == "everything":
			a.Kind = "everything"
			continue
		case strings.HasPrefix(t, "bytes(") && strings.HasSuffix(t, ")"):
			a.Kind = "bytes"
			cl.Text = t[6 : len(t)-1]
			emit(cl, false, "[]byte")
		case strings.HasPrefix(t, "stream(") && strings.HasSuffix(t, ")"):
			a.Kind = "stream"
			cl.Text = t[7 : len(t)-1]
			emit(cl, false, "interface{}")
		case strings.HasPrefix(t, "instream(") && strings.HasSuffix(t, ")"):
			a.Kind = "instream"
			cl.Text = t[9 : len(t)-1]
			emit(cl, false, "interface{}")
		case strings.HasPrefix(t, "outstream(") && strings.HasSuffix(t, ")"):
			a.Kind = "outstream"
			cl.Text = t[10 : len(t)-1]
			emit(cl, false, "interface{}")
		default:
			g.errs = append(g.errs, fmt.Sprintf("%s:%d: iface assigns supports bytes()/stream() only: %q", c.File, c.Line, t))
			continue
		}
		a.Expr = cl
	}
}

func (g *genCtx) compileLemma(c *Contract) {
	// lemma NAME(params): requires.. ensures.. ; Key = "name(x int, y byte)"
	j := strings.Index(c.Key, "(")
	if j < 0 && c.Sig != "" {
		// second generation round: the key was split already
		j = len(c.Key)
		c.Key += c.Sig
	}
	if j < 0 {
		g.errs = append(g.errs, fmt.Sprintf("%s:%d: lemma needs a parameter list", c.File, c.Line))
		return
	}
	sig := c.Key[j:]
	c.Key = strings.TrimSpace(c.Key[:j])
	params, _, err := splitSig(sig)
	if err != nil {
		g.errs = append(g.errs, fmt.Sprintf("%s:%d: %v", c.File, c.Line, err))
		return
	}
	c.Sig = sig
	for _, cl := range append(append([]*Clause{}, c.Requires...), c.Ensures...) {
		g.n++
		cl.Wrapper = fmt.Sprintf("vc_lemma_%s_%s_%d", sanitize(c.Key), sanitize(cl.Label), g.n)
		cl.RetType = "bool"
		fmt.Fprintf(&g.buf, "// lemma %s %s [%s]\nfunc %s(%s) bool { return %s }\n\n", c.Key, cl.Kind, cl.Label, cl.Wrapper, strings.Join(params, ", "), rewriteImplies(cl.Text))
	}
}

// splitSig parses "(a T, b U) (r V, err error)" into parameter and result declarations.
func splitSig(sig string) (params, results []string, err error) {
	sig = strings.TrimSpace(sig)
	if !strings.HasPrefix(sig, "(") {
		return nil, nil, fmt.Errorf("bad signature %q", sig)
	}
	depth := 0
	end := -1
	for i := 0; i < len(sig); i++ {
		if sig[i] == '(' {
			depth++
		} else if sig[i] == ')' {
			depth--
			if depth == 0 {
				end = i
				break
			}
		}
	}
	if end < 0 {
		return nil, nil, fmt.Errorf("bad signature %q", sig)
	}
	for _, p := range splitTop(sig[1:end], ',') {
		if strings.TrimSpace(p) != "" {
			params = append(params, strings.TrimSpace(p))
		}
	}
	rest := strings.TrimSpace(sig[end+1:])
	if rest != "" {
		if strings.HasPrefix(rest, "(") && strings.HasSuffix(rest, ")") {
			for _, p := range splitTop(rest[1:len(rest)-1], ',') {
				if strings.TrimSpace(p) != "" {
					results = append(results, strings.TrimSpace(p))
				}
			}
		} else {
			results = []string{"result " + rest}
		}
	}
	return params, results, nil
}

// externalFunc resolves keys like "io.ReadFull" or "bufio.Reader.ReadSlice" to functions of imported packages.
func (g *genCtx) externalFunc(c *Contract) (*types.Func, bool) {
	parts := strings.Split(c.Key, ".")
	if len(parts) < 2 {
		return nil, false
	}
	if g.pkg.Types.Scope().Lookup(parts[0]) != nil {
		return nil, false // a local type or function
	}
	for _, imp := range g.pkg.Imports {
		if imp.Name != parts[0] || imp.Types == nil {
			continue
		}
		o := imp.Types.Scope().Lookup(parts[1])
		if o == nil {
			return nil, false
		}
		if len(parts) == 2 {
			f, ok := o.(*types.Func)
			return f, ok
		}
		tn, ok := o.(*types.TypeName)
		if !ok {
			return nil, false
		}
		obj, _, _ := types.LookupFieldOrMethod(tn.Type(), true, imp.Types, parts[2])
		f, ok := obj.(*types.Func)
		return f, ok
	}
	return nil, false
}

// contractFilePos returns a position inside the package's contract file (file scope with its imports).
func (g *genCtx) contractFilePos() token.Pos {
	for _, f := range g.pkg.Syntax {
		if filepath.Base(g.pkg.Fset.Position(f.Pos()).Filename) == contractFile {
			return f.Name.End()
		}
	}
	return token.NoPos
}

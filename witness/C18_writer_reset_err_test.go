package wsutil

// Witness for wsutil.Writer.Reset/post/zero (C18): Reset does not clear the sticky error, so a
// writer that failed once keeps failing after Reset and after a PutWriter/GetWriter cycle.

import (
	"errors"
	"testing"

	"github.com/gobwas/ws"
)

type witFailWriter struct{ err error }

func (f witFailWriter) Write(p []byte) (int, error) { return 0, f.err }

type witOKWriter struct{ n int }

func (o *witOKWriter) Write(p []byte) (int, error) { o.n += len(p); return len(p), nil }

func TestWitnessWriterResetKeepsError(t *testing.T) {
	w := NewWriterBufferSize(witFailWriter{errors.New("boom")}, ws.StateServerSide, ws.OpText, 64)
	w.Write([]byte("x"))
	if err := w.Flush(); err == nil {
		t.Skip("destination did not fail")
	}
	ok := &witOKWriter{}
	w.Reset(ok, ws.StateServerSide, ws.OpText)
	if _, err := w.Write([]byte("hello")); err != nil {
		t.Fatalf("REPLAY-VIOLATION: Write after Reset returns the old error: %v", err)
	}
	if err := w.Flush(); err != nil {
		t.Fatalf("REPLAY-VIOLATION: Flush after Reset returns the old error: %v", err)
	}
	if ok.n == 0 {
		t.Fatalf("REPLAY-VIOLATION: nothing was written after Reset")
	}
}

package wsutil

// Witness for wsutil.Reader.NextFrame/post/ctl (C16): a control frame that arrives between the
// fragments of a message and is cut short by the end of the stream is reported as read successfully.

import (
	"bytes"
	"testing"

	"github.com/gobwas/ws"
)

func TestWitnessIntermediateControlCut(t *testing.T) {
	var in bytes.Buffer
	ws.WriteFrame(&in, ws.NewFrame(ws.OpText, false, []byte("he")))
	ws.WriteHeader(&in, ws.Header{Fin: true, OpCode: ws.OpPing, Length: 10})
	in.Write([]byte("abc")) // only 3 of the 10 announced bytes, then the stream ends
	r := NewReader(&in, ws.StateClientSide)
	if _, err := r.NextFrame(); err != nil {
		t.Fatal(err)
	}
	p := make([]byte, 2)
	if _, err := r.Read(p); err != nil {
		t.Fatal(err)
	}
	hdr, err := r.NextFrame()
	if err == nil {
		t.Fatalf("REPLAY-VIOLATION: cut control frame (opcode %v, %d bytes announced, 3 present) reported without error", hdr.OpCode, hdr.Length)
	}
}

package ws

// Witness for the failed obligation ws.httpParseResponseLine/post/lit101 (property C10): a status
// token that is not literally "101" ("0101", "00101") is converted to the number 101 and accepted.

import "testing"

func TestWitnessC10StatusNotThreeDigits(t *testing.T) {
	for _, line := range []string{"HTTP/1.1 0101 Switching Protocols", "HTTP/1.1 00101 x", "HTTP/1.1 000000000000000000000101 x"} {
		resp, err := httpParseResponseLine([]byte(line))
		if err == nil && resp.status == 101 {
			t.Errorf("status line %q accepted with status 101", line)
		}
	}
	if resp, err := httpParseResponseLine([]byte("HTTP/1.1 101 Switching Protocols")); err != nil || resp.status != 101 {
		t.Errorf("genuine 101 line: %v %v", resp.status, err)
	}
}

package wsutil

// Witness for the failed obligation wsutil.Reader.Read/post/invalid (properties C07, C04, C18):
// when a text message ends inside a multi-byte sequence, Read reports ErrInvalidUTF8 but leaves the
// reader as it was (frame still set, UTF-8 automaton mid-sequence); the next, valid, message on
// the same reader is then reported invalid too.

import (
	"bytes"
	"io/ioutil"
	"testing"

	"github.com/gobwas/ws"
)

func TestWitnessC07InvalidUTF8StateLeak(t *testing.T) {
	var buf bytes.Buffer
	ws.WriteFrame(&buf, ws.NewTextFrame([]byte{'a', 0xe2, 0x82})) // cut inside U+20AC
	ws.WriteFrame(&buf, ws.NewTextFrame([]byte("hello")))
	r := &Reader{Source: &buf, State: ws.StateClientSide, CheckUTF8: true}

	if _, err := r.NextFrame(); err != nil {
		t.Fatal(err)
	}
	if _, err := ioutil.ReadAll(r); err != ErrInvalidUTF8 {
		t.Fatalf("first message: got %v, want ErrInvalidUTF8", err)
	}
	hdr, err := r.NextFrame()
	if err != nil {
		t.Fatalf("NextFrame for the second message: %v", err)
	}
	p, err := ioutil.ReadAll(r)
	if err != nil || string(p) != "hello" {
		t.Fatalf("second (valid) message %+v: read %q, %v; want \"hello\", nil", hdr, p, err)
	}
}

package wsflate

// Witness for wsflate.bitsFromASCII/post/ok (C14): ill-valued window parameters are accepted because
// the digit test of httphead.IntFromASCII lets 0x3a..0x3f through and leading zeroes are not refused.

import (
	"testing"

	"github.com/gobwas/httphead"
)

func TestWitnessWindowBitsText(t *testing.T) {
	for _, v := range []string{"0?", "08", "008", "1:"} {
		var p Parameters
		err := p.Parse(httphead.NewOption(ExtensionName, map[string]string{"server_max_window_bits": v}))
		if err == nil {
			t.Errorf("REPLAY-VIOLATION: server_max_window_bits=%q accepted as %d", v, p.ServerMaxWindowBits)
		}
	}
}

package ws

// Witness for ws.ReadFrame/safe-make/ReadFrame#1 (C15, open finding): a header announcing a payload
// of 2^63-1 bytes makes ReadFrame panic in make([]byte, n) instead of returning an error.

import (
	"bytes"
	"testing"
)

func TestWitnessReadFrameHugeLength(t *testing.T) {
	defer func() {
		if r := recover(); r != nil {
			t.Fatalf("REPLAY-VIOLATION: ReadFrame panicked on peer input: %v", r)
		}
	}()
	in := []byte{0x82, 0x7f, 0x7f, 0xff, 0xff, 0xff, 0xff, 0xff, 0xff, 0xff}
	_, err := ReadFrame(bytes.NewReader(in))
	if err == nil {
		t.Fatalf("REPLAY-VIOLATION: no error for a truncated frame")
	}
}

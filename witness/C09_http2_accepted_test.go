package ws

// Witness for the failed obligation ws.HTTPUpgrader.Upgrade/post/proto (property C09): the protocol
// test `ProtoMajor < 1 || (ProtoMajor == 1 && ProtoMinor < 1)` lets every major version above 1
// through, so a request that says HTTP/2.0 is upgraded although the property (and the other
// upgrader) only accept HTTP/1.x with x >= 1.

import (
	"bufio"
	"bytes"
	"net"
	"net/http"
	"testing"
)

type hijackRecorder struct {
	http.ResponseWriter
	conn net.Conn
	out  *bytes.Buffer
}

func (h *hijackRecorder) Hijack() (net.Conn, *bufio.ReadWriter, error) {
	return h.conn, bufio.NewReadWriter(bufio.NewReader(h.conn), bufio.NewWriter(h.out)), nil
}
func (h *hijackRecorder) Header() http.Header       { return http.Header{} }
func (h *hijackRecorder) Write([]byte) (int, error) { return 0, nil }
func (h *hijackRecorder) WriteHeader(int)           {}

func TestWitnessC09HTTP2Accepted(t *testing.T) {
	for _, v := range [][2]int{{2, 0}, {3, 1}} {
		c1, c2 := net.Pipe()
		defer c1.Close()
		defer c2.Close()
		r, _ := http.NewRequest("GET", "http://example.com/ws", nil)
		r.ProtoMajor, r.ProtoMinor = v[0], v[1]
		r.Header.Set("Upgrade", "websocket")
		r.Header.Set("Connection", "Upgrade")
		r.Header.Set("Sec-Websocket-Version", "13")
		r.Header.Set("Sec-Websocket-Key", "dGhlIHNhbXBsZSBub25jZQ==")
		w := &hijackRecorder{conn: c1, out: &bytes.Buffer{}}
		_, _, _, err := HTTPUpgrader{}.Upgrade(r, w)
		if err == nil {
			t.Errorf("HTTP/%d.%d request upgraded; response: %q", v[0], v[1], bytes.SplitN(w.out.Bytes(), []byte("\r\n"), 2)[0])
		}
	}
}

package wsflate

// Witness for wsflate.Parameters.Parse$1/post/accept (C14): the value-less form of
// client_max_window_bits skips the duplicate check, so an offer that repeats the parameter is
// accepted instead of being rejected as an error.

import (
	"testing"

	"github.com/gobwas/httphead"
)

func TestWitnessDuplicateClientMaxWindowBits(t *testing.T) {
	for _, hdr := range []string{
		"permessage-deflate; client_max_window_bits=10; client_max_window_bits",
		"permessage-deflate; client_max_window_bits; client_max_window_bits",
	} {
		opts, ok := httphead.ParseOptions([]byte(hdr), nil)
		if !ok || len(opts) != 1 {
			t.Fatalf("cannot parse test header %q", hdr)
		}
		var p Parameters
		if err := p.Parse(opts[0]); err == nil {
			t.Errorf("REPLAY-VIOLATION: duplicated parameter accepted: %q -> %+v", hdr, p)
		}
	}
}

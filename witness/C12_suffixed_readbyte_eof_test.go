package wsflate

// Witness for the failed obligation wsflate.suffixedReader.ReadByte/post/next (property C12):
// at the end of a ByteReader source, ReadByte returns (0, nil) -- a byte that is neither in the
// source nor in the 9-byte tail -- so a Decompressor that pulls its input one byte at a time sees
// a corrupted stream.

import (
	"bytes"
	"compress/flate"
	"io"
	"io/ioutil"
	"testing"
)

func TestWitnessC12SuffixedReadByteEOF(t *testing.T) {
	var sr suffixedReader
	sr.suffix = compressionReadTail
	sr.reset(bytes.NewReader([]byte{0xaa}))
	var got []byte
	for i := 0; i < 20; i++ {
		b, err := sr.ReadByte()
		if err != nil {
			break
		}
		got = append(got, b)
	}
	want := append([]byte{0xaa}, compressionReadTail[:]...)
	if !bytes.Equal(got, want) {
		t.Fatalf("suffixedReader.ReadByte sequence = % x; want % x", got, want)
	}
}

type byteAtATime struct{ br io.ByteReader }

func (b byteAtATime) ReadByte() (byte, error) { return b.br.ReadByte() }
func (b byteAtATime) Read(p []byte) (int, error) {
	if len(p) == 0 {
		return 0, nil
	}
	c, err := b.br.ReadByte()
	if err != nil {
		return 0, err
	}
	p[0] = c
	return 1, nil
}

func TestWitnessC12ByteReaderDecompress(t *testing.T) {
	msg := []byte("hello, permessage-deflate")
	var buf bytes.Buffer
	fw, _ := flate.NewWriter(&buf, 6)
	fw.Write(msg)
	fw.Flush()
	comp := bytes.TrimSuffix(buf.Bytes(), []byte{0, 0, 0xff, 0xff})
	r := NewReader(bytes.NewReader(comp), func(r io.Reader) Decompressor {
		return flate.NewReader(byteAtATime{r.(io.ByteReader)})
	})
	got, err := ioutil.ReadAll(r)
	if err != nil || !bytes.Equal(got, msg) {
		t.Fatalf("decompressed %q, %v; want %q", got, err, msg)
	}
}

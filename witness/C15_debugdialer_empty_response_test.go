package wsutil

// Witness for the failed obligation wsutil.DebugDialer.Dial/safe-slice/Dial#1 (properties C15, C11):
// with OnResponse set, a dial that fails before a complete response head was received (the peer
// closes the connection, or sends a head without the terminating blank line) makes Dial slice the
// empty response buffer at p[:3] and panic.

import (
	"context"
	"net"
	"testing"
	"time"
)

func TestWitnessC15DebugDialerEmptyResponse(t *testing.T) {
	ln, err := net.Listen("tcp", "127.0.0.1:0")
	if err != nil {
		t.Skip(err)
	}
	defer ln.Close()
	go func() {
		c, err := ln.Accept()
		if err == nil {
			c.Close() // say nothing
		}
	}()
	d := DebugDialer{OnResponse: func(p []byte) {}}
	d.Dialer.Timeout = 2 * time.Second
	func() {
		defer func() {
			if x := recover(); x != nil {
				t.Fatalf("DebugDialer.Dial panicked on a peer that closes without answering: %v", x)
			}
		}()
		_, _, _, err := d.Dial(context.Background(), "ws://"+ln.Addr().String()+"/")
		if err == nil {
			t.Fatalf("dial to a silent peer succeeded")
		}
	}()
}

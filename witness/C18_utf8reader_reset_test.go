package wsutil

// Witness for wsutil.UTF8Reader.Reset/post/asnew (C18): Reset leaves the "accepted" counter of the
// previous Read behind, so a reset reader does not behave like a new one.

import (
	"bytes"
	"testing"
)

func TestWitnessUTF8ReaderResetAccepted(t *testing.T) {
	u := NewUTF8Reader(bytes.NewReader([]byte("abc")))
	p := make([]byte, 8)
	u.Read(p)
	u.Reset(bytes.NewReader(nil))
	fresh := NewUTF8Reader(bytes.NewReader(nil))
	if u.Accepted() != fresh.Accepted() {
		t.Fatalf("REPLAY-VIOLATION: after Reset Accepted() = %d, a new reader reports %d", u.Accepted(), fresh.Accepted())
	}
}

package ws

// Witness for the failed obligation ws.Cipher/safe-idx/Cipher#1 (properties C02, C15) once the
// offset precondition is the property's own "every non-negative offset": for payloads shorter than
// eight bytes the key index is computed as (offset+i)%4, which overflows for offsets within a few
// bytes of the largest int and indexes the key with a negative number.

import (
	"math"
	"testing"
)

func TestWitnessC02CipherOffsetOverflow(t *testing.T) {
	mask := [4]byte{1, 2, 3, 4}
	for _, off := range []int{math.MaxInt - 1, math.MaxInt} {
		p := []byte{10, 20, 30}
		want := []byte{10 ^ mask[off%4], 20 ^ mask[(off%4+1)%4], 30 ^ mask[(off%4+2)%4]}
		func() {
			defer func() {
				if x := recover(); x != nil {
					t.Errorf("Cipher(3 bytes, offset %d) panicked: %v", off, x)
				}
			}()
			Cipher(p, mask, off)
			for i := range p {
				if p[i] != want[i] {
					t.Errorf("offset %d: byte %d = %#x, want %#x", off, i, p[i], want[i])
				}
			}
		}()
	}
}

package wsutil

// Witness for wsutil.ControlHandler.closeWithProtocolError/post/frame (C08): on the client side the
// result of ws.MaskFrameInPlace is dropped, so the protocol-error close reply goes out with an
// unmasked header over an XOR-ed payload: the server's own header check refuses it.

import (
	"bytes"
	"testing"

	"github.com/gobwas/ws"
)

func TestWitnessClientProtocolErrorCloseIsMasked(t *testing.T) {
	var out bytes.Buffer
	// a close frame with the reserved status 1005: invalid, the handler answers with a 1002 close
	payload := ws.NewCloseFrameBody(1005, "")
	h := ControlHandler{Src: bytes.NewReader(payload), Dst: &out, State: ws.StateClientSide}
	_ = h.HandleClose(ws.Header{Fin: true, OpCode: ws.OpClose, Length: int64(len(payload))})
	hdr, err := ws.ReadHeader(&out)
	if err != nil {
		t.Fatalf("no reply written: %v", err)
	}
	if err := ws.CheckHeader(hdr, ws.StateServerSide); err != nil {
		t.Fatalf("REPLAY-VIOLATION: the server refuses the client's reply: %v (masked=%v)", err, hdr.Masked)
	}
}

package wsflate

// Witness for wsflate.Extension.Negotiate/post/legal (C14): the comparison for
// server_max_window_bits is the wrong way round. A client that limits the server's window to 8 gets
// "server_max_window_bits=9" from a server configured with 9 (model: want=9, offer=8).

import (
	"testing"

	"github.com/gobwas/httphead"
)

func TestWitnessNegotiateServerMaxWindowBits(t *testing.T) {
	e := Extension{Parameters: Parameters{ServerMaxWindowBits: 9}}
	opts, ok := httphead.ParseOptions([]byte("permessage-deflate; server_max_window_bits=8"), nil)
	if !ok || len(opts) != 1 {
		t.Fatal("cannot parse offer")
	}
	accept, err := e.Negotiate(opts[0])
	if err != nil {
		t.Fatal(err)
	}
	if accept.Size() == 0 {
		return // declined: legal
	}
	var resp Parameters
	if err := resp.Parse(accept); err != nil {
		t.Fatal(err)
	}
	if !resp.ServerMaxWindowBits.Defined() || resp.ServerMaxWindowBits > 8 {
		t.Fatalf("REPLAY-VIOLATION: client asked for server_max_window_bits<=8, response carries %d", resp.ServerMaxWindowBits)
	}
}

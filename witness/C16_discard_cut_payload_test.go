package wsutil

// Witness for the failed obligations wsutil.Reader.Discard/post/cut and
// /pre/Reader.NextFrame.inv#1 (property C16): when the stream ends inside the payload being
// discarded, io.Copy returns nil (EOF is not an error for Copy) and Discard reports success for a
// message that was cut.

import (
	"bytes"
	"testing"

	"github.com/gobwas/ws"
)

func TestWitnessC16DiscardCutPayload(t *testing.T) {
	var buf bytes.Buffer
	ws.WriteFrame(&buf, ws.NewBinaryFrame(make([]byte, 100)))
	cut := buf.Bytes()[:40] // header + 38 of 100 payload bytes
	r := &Reader{Source: bytes.NewReader(cut), State: ws.StateClientSide}
	if _, err := r.NextFrame(); err != nil {
		t.Fatal(err)
	}
	if err := r.Discard(); err == nil {
		t.Fatalf("Discard of a message cut after 38 of 100 payload bytes returned nil")
	}
}

package ws

// Witness for the failed obligation ws.asciiToInt/inv-keep/loop1.dg (property C10): the digit test
// `b&0xf0 == 0x30` also accepts ':' ';' '<' '=' '>' '?', so the status token "0:1" (0*100 + 10*10 + 1)
// is taken for 101 and the dialer reports a successful upgrade.

import (
	"bufio"
	"bytes"
	"io"
	"net/url"
	"strings"
	"testing"
)

func TestWitnessC10AsciiToIntDigitHole(t *testing.T) {
	for _, s := range []string{"0:1", "9;", "1?", "<"} {
		if v, err := asciiToInt([]byte(s)); err == nil {
			t.Errorf("asciiToInt(%q) = %d, nil; want an error", s, v)
		}
	}
	if resp, err := httpParseResponseLine([]byte("HTTP/1.1 0:1 Switching Protocols")); err == nil && resp.status == 101 {
		t.Errorf("status token %q parsed as 101", "0:1")
	}
}

type scriptedConn struct {
	io.Reader
	io.Writer
}

func TestWitnessC10DialerAcceptsBogusStatus(t *testing.T) {
	pr, pw := io.Pipe()
	reqR, reqW := io.Pipe()
	go func() {
		// the "server": read the request head, answer with a status token that is not 101
		br := bufio.NewReader(reqR)
		var key string
		for {
			line, err := br.ReadString('\n')
			if err != nil {
				return
			}
			if strings.HasPrefix(strings.ToLower(line), "sec-websocket-key:") {
				key = strings.TrimSpace(line[len("sec-websocket-key:"):])
			}
			if line == "\r\n" {
				break
			}
		}
		accept := make([]byte, acceptSize)
		initAcceptFromNonce(accept, []byte(key))
		var b bytes.Buffer
		b.WriteString("HTTP/1.1 0:1 Switching Protocols\r\nUpgrade: websocket\r\nConnection: Upgrade\r\nSec-WebSocket-Accept: ")
		b.Write(accept)
		b.WriteString("\r\n\r\n")
		pw.Write(b.Bytes())
	}()
	u, _ := url.Parse("ws://example.com/")
	_, _, err := Dialer{}.Upgrade(scriptedConn{pr, reqW}, u)
	if err == nil {
		t.Fatalf("Dialer.Upgrade succeeded on status line %q", "HTTP/1.1 0:1 Switching Protocols")
	}
}

package wsutil

// Witness for wsutil.ControlWriter.Write/post/count (C08): the writer never counts the bytes it
// accepted, so a sequence of writes whose total crosses the 125-byte limit is not refused; the
// inner Writer then auto-flushes a NON-FINAL 125-byte control frame followed by a continuation.

import (
	"bytes"
	"testing"

	"github.com/gobwas/ws"
)

func TestWitnessControlWriterCountsWrites(t *testing.T) {
	var buf bytes.Buffer
	w := NewControlWriter(&buf, ws.StateServerSide, ws.OpPing)
	if _, err := w.Write(make([]byte, 100)); err != nil {
		t.Fatalf("first write: %v", err)
	}
	_, err := w.Write(make([]byte, 100))
	if err == nil {
		w.Flush()
		hdr, _ := ws.ReadHeader(&buf)
		t.Fatalf("REPLAY-VIOLATION: 200 bytes accepted by a control writer (limit 125); first frame on the wire: fin=%v len=%d", hdr.Fin, hdr.Length)
	}
	if err != ErrControlOverflow {
		t.Fatalf("unexpected error %v", err)
	}
}
